// Package c18: version queries return the best matching chart from a well-formed index.
//
// What is observed: the real repo.LoadIndexFile on generated index files (YAML and JSON), the
// Entries it returns, IndexFile.Get for "", exact strings and constraint expressions, the lock
// written by internal/resolver.Resolve against the same file in a temp repository cache, and
// registry.GetTagMatchingVersionOrConstraint on the same version strings used as tags.
//
// Reference (refSemver): Masterminds/semver (trusted) parses, checks constraints and compares; the
// model itself is "filter by Check, take the max by Compare, exact string wins".
//
// Don't-care zones (deliberately unchecked):
//   - which of several equal-precedence entries (1.0.0, v1.0.0, 1.0.0+b) is returned / sorted first;
//   - entries without urls stay in Entries (helm keeps them; only the resolver must skip them);
//   - files with wrong-typed fields, unknown YAML keys or no apiVersion may be rejected as a whole
//     (error) — only "no panic, and if loaded then well-formed" is demanded there;
//   - for tag lists that are not sorted newest-first only "result satisfies / error iff none
//     satisfies / exact string wins" is demanded (the property text speaks of indexes, the tag
//     helper is documented as first-match on the list as given);
//   - error texts.
package c18

import (
	"encoding/json"
	"fmt"
	"io"
	"log"
	"log/slog"
	"math/rand"
	"os"
	"path/filepath"
	"runtime/debug"
	"sort"
	"strings"

	"github.com/Masterminds/semver/v3"
	"sigs.k8s.io/yaml"

	"helm.sh/helm/v4/internal/resolver"
	chart "helm.sh/helm/v4/pkg/chart/v2"
	"helm.sh/helm/v4/pkg/helmpath"
	"helm.sh/helm/v4/pkg/registry"
	"helm.sh/helm/v4/pkg/repo"
	"helm.sh/helm/v4/verifh/core"
)

type caseData struct {
	Seed int64 `json:"seed"`
	N    int   `json:"n"`              // indexes in this case
	Only int   `json:"only,omitempty"` // replay aid: 1-based index number to run alone
}

func init() {
	core.Register(&core.Prop{
		ID:    "C18",
		Level: "exploration",
		Rule: "seeded index files (YAML/JSON, 1-3 charts, 0-12 entries each in random order: releases, pre-releases, build metadata, v prefix, short forms, equal-precedence duplicates, invalid strings, null / metadata-less / nameless / url-less entries, wrong-typed fields, missing apiVersion) loaded with repo.LoadIndexFile; per chart: Get with \"\", every version string in the file, equal-precedence respellings, absent versions and generated constraints (^ ~ ranges comparisons wildcards || pre-release-including, garbage); resolver.Resolve with the same constraints; GetTagMatchingVersionOrConstraint on the version strings; for every second index an OCI route: a registry stub on 127.0.0.1 serves the versions as a tag list in pages of 1/2/3/100 (Link header), queried through registry.Client.Tags, Tags+GetTagMatchingVersionOrConstraint, Client.ValidateReference and resolver.Resolve on an oci:// dependency. " +
			"distinct_nontrivial counts (format, kinds of bad entries present, entry point, query kind, outcome) tuples.",
		Assumptions: []string{
			"Masterminds/semver (NewVersion, NewConstraint, Check, Compare) is the trusted definition of validity, satisfaction and precedence",
			"sigs.k8s.io/yaml / encoding/json marshalling of the generated index document is trusted",
			"validity of an entry = non-null, non-empty name, version accepted by semver.NewVersion (other metadata fields are kept trivially valid by the generator)",
		},
		Gen:            genCases,
		Run:            run,
		Post:           post,
		CaseTimeoutSec: 300,
	})
}

func genCases(seed int64, tier string) []core.Case {
	ncases, per := 96, 60
	if tier == "thorough" {
		ncases, per = 2400, 150
	}
	rng := rand.New(rand.NewSource(seed*104729 + 18))
	out := make([]core.Case, 0, ncases)
	for i := 0; i < ncases; i++ {
		out = append(out, core.Case{ID: fmt.Sprintf("idx%04d", i), Data: core.J(caseData{Seed: rng.Int63(), N: per})})
	}
	return out
}

// ---------------------------------------------------------------- generator

type entrySpec struct {
	Kind    string // valid | invalid-version | null | no-metadata | no-name | empty-version
	Version string
	URLs    bool
}

type chartSpec struct {
	Name    string
	Entries []entrySpec
}

type indexSpec struct {
	Format     string // yaml | json
	Charts     []chartSpec
	WrongType  string // "" or description of a wrong-typed field injected
	NoAPI      bool
	wrongChart int
	wrongEntry int
}

var preParts = []string{"alpha", "alpha.1", "alpha.2", "beta", "beta.2", "beta.11", "rc.1", "rc.2", "0", "1", "0.3.7", "x.7.z.92", "snapshot", "SNAPSHOT"}
var buildParts = []string{"b", "build.5", "001", "exp.sha.5114f85", "20240101"}
var invalidVersions = []string{"latest", "1.2.3.4", "1.x", "a.b.c", "1.2.3-", "1.2.3-β", "1..2", "-1.0.0", "1.2.3-01", "1.0.0+", " 1.0.0", "1.0.0 ", "01.2.3", "1.02.3", "v", "1.2.3_4", "2.0.0-rc..1"}

func genVersion(rng *rand.Rand) string {
	ma, mi, pa := rng.Intn(3), rng.Intn(3), rng.Intn(3)
	if rng.Intn(12) == 0 {
		ma = 10 + rng.Intn(3) // lexicographic vs numeric order
	}
	if rng.Intn(12) == 0 {
		mi = 9 + rng.Intn(3)
	}
	var s string
	switch r := rng.Intn(20); {
	case r == 0:
		s = fmt.Sprintf("%d", ma)
	case r <= 2:
		s = fmt.Sprintf("%d.%d", ma, mi)
	default:
		s = fmt.Sprintf("%d.%d.%d", ma, mi, pa)
	}
	if rng.Intn(10) < 3 {
		s += "-" + preParts[rng.Intn(len(preParts))]
	}
	if rng.Intn(10) < 2 {
		s += "+" + buildParts[rng.Intn(len(buildParts))]
	}
	if rng.Intn(7) == 0 {
		s = "v" + s
	}
	return s
}

func genIndex(rng *rand.Rand) indexSpec {
	sp := indexSpec{Format: "yaml"}
	if rng.Intn(3) == 0 {
		sp.Format = "json"
	}
	withNull := rng.Intn(7) == 0
	badRate := rng.Intn(4) // 0: clean index
	nch := 1 + rng.Intn(3)
	for c := 0; c < nch; c++ {
		cs := chartSpec{Name: []string{"alpha", "web-app", "db"}[c]}
		n := rng.Intn(13)
		if rng.Intn(6) == 0 {
			n = rng.Intn(3)
		}
		for e := 0; e < n; e++ {
			es := entrySpec{Kind: "valid", URLs: rng.Intn(8) != 0}
			switch r := rng.Intn(40); {
			case badRate > 0 && r < badRate:
				es.Kind, es.Version = "invalid-version", invalidVersions[rng.Intn(len(invalidVersions))]
				if _, err := semver.NewVersion(es.Version); err == nil {
					es.Kind = "valid" // the lenient parser takes it (e.g. leading zeros): the library decides
				}
			case badRate > 0 && r < badRate+1:
				es.Kind = "no-metadata"
			case badRate > 0 && r < badRate+2:
				es.Kind, es.Version = "no-name", genVersion(rng)
			case badRate > 0 && r < badRate+3:
				es.Kind = "empty-version"
			case withNull && r < badRate+6:
				es.Kind = "null"
			default:
				if len(cs.Entries) > 0 && rng.Intn(5) == 0 {
					// equal-precedence duplicate / respelling of an earlier entry
					prev := cs.Entries[rng.Intn(len(cs.Entries))]
					if prev.Kind == "valid" {
						es.Version = respell(rng, prev.Version)
					}
				}
				if es.Version == "" {
					es.Version = genVersion(rng)
				}
				if _, err := semver.NewVersion(es.Version); err != nil {
					es.Kind = "invalid-version"
				}
			}
			cs.Entries = append(cs.Entries, es)
		}
		sp.Charts = append(sp.Charts, cs)
	}
	if rng.Intn(25) == 0 {
		sp.NoAPI = true
	}
	if rng.Intn(12) == 0 {
		sp.WrongType = []string{"version-number", "urls-string", "name-list", "keywords-string", "entries-list", "unknown-key", "created-number"}[rng.Intn(7)]
		sp.wrongChart = rng.Intn(len(sp.Charts))
		if n := len(sp.Charts[sp.wrongChart].Entries); n > 0 {
			sp.wrongEntry = rng.Intn(n)
		}
	}
	return sp
}

// respell returns a string of equal precedence (or the identical string).
func respell(rng *rand.Rand, v string) string {
	switch rng.Intn(4) {
	case 0:
		return v
	case 1:
		if strings.HasPrefix(v, "v") {
			return v[1:]
		}
		return "v" + v
	case 2:
		if i := strings.IndexByte(v, '+'); i >= 0 {
			return v[:i]
		}
		return v + "+" + buildParts[rng.Intn(len(buildParts))]
	default:
		if i := strings.IndexByte(v, '+'); i >= 0 {
			return v[:i] + "+other"
		}
		return v
	}
}

func (sp indexSpec) document() any {
	entries := map[string]any{}
	for ci, cs := range sp.Charts {
		var list []any
		for ei, es := range cs.Entries {
			var m map[string]any
			switch es.Kind {
			case "null":
				list = append(list, nil)
				continue
			case "no-metadata":
				m = map[string]any{"digest": "sha256:00"}
			case "no-name":
				m = map[string]any{"version": es.Version, "apiVersion": "v2"}
			case "empty-version":
				m = map[string]any{"name": cs.Name, "apiVersion": "v2"}
			default:
				m = map[string]any{"name": cs.Name, "version": es.Version, "apiVersion": "v2", "description": "d", "created": "2024-01-02T03:04:05Z"}
			}
			if es.URLs {
				m["urls"] = []any{fmt.Sprintf("charts/%s-%d.tgz", cs.Name, ei)}
			}
			if sp.WrongType != "" && ci == sp.wrongChart && ei == sp.wrongEntry {
				switch sp.WrongType {
				case "version-number":
					m["version"] = 1.5
				case "urls-string":
					m["urls"] = "charts/x.tgz"
				case "name-list":
					m["name"] = []any{cs.Name}
				case "keywords-string":
					m["keywords"] = "kw"
				case "unknown-key":
					m["nonsense"] = map[string]any{"a": 1}
				case "created-number":
					m["created"] = 12345
				}
			}
			list = append(list, m)
		}
		if list == nil {
			list = []any{}
		}
		entries[cs.Name] = list
	}
	doc := map[string]any{"entries": entries, "generated": "2024-01-02T03:04:05Z"}
	if sp.WrongType == "entries-list" {
		doc["entries"] = []any{"a", "b"}
	}
	if !sp.NoAPI {
		doc["apiVersion"] = "v1"
	}
	return doc
}

func (sp indexSpec) bytes() []byte {
	var b []byte
	var err error
	if sp.Format == "json" {
		b, err = json.MarshalIndent(sp.document(), "", " ")
	} else {
		b, err = yaml.Marshal(sp.document())
	}
	if err != nil {
		panic(err)
	}
	return b
}

func (sp indexSpec) badKinds() string {
	set := map[string]bool{}
	for _, cs := range sp.Charts {
		for _, es := range cs.Entries {
			if es.Kind != "valid" {
				set[es.Kind] = true
			}
			if es.Kind == "valid" && !es.URLs {
				set["no-urls"] = true
			}
		}
	}
	if sp.WrongType != "" {
		set["wrong-type:"+sp.WrongType] = true
	}
	if sp.NoAPI {
		set["no-apiVersion"] = true
	}
	var ks []string
	for k := range set {
		ks = append(ks, k)
	}
	sort.Strings(ks)
	if len(ks) == 0 {
		return "clean"
	}
	return strings.Join(ks, "+")
}

func (sp indexSpec) hasNull() bool {
	for _, cs := range sp.Charts {
		for _, es := range cs.Entries {
			if es.Kind == "null" {
				return true
			}
		}
	}
	return false
}

// ---------------------------------------------------------------- reference model

type refEntry struct {
	s    string
	v    *semver.Version
	urls bool
}

func validEntries(cs chartSpec) []refEntry {
	var out []refEntry
	for _, es := range cs.Entries {
		if es.Kind != "valid" {
			continue
		}
		v, err := semver.NewVersion(es.Version)
		if err != nil {
			continue
		}
		out = append(out, refEntry{es.Version, v, es.URLs})
	}
	return out
}

type expectation struct {
	wantErr bool
	exact   bool            // the identical string must be returned
	max     *semver.Version // otherwise: equal precedence to this
	con     *semver.Constraints
	stable  bool // "" query: result must have no pre-release part
}

// refQuery is the property's sentence about Get: "" -> highest stable; identical string if one
// exists; otherwise highest satisfying; error if none.
func refQuery(es []refEntry, q string, exactFirst, needURLs bool) expectation {
	var ex expectation
	if q == "" && exactFirst {
		ex.stable = true
		for _, e := range es {
			if e.v.Prerelease() != "" {
				continue
			}
			if ex.max == nil || e.v.Compare(ex.max) > 0 {
				ex.max = e.v
			}
		}
		ex.wantErr = ex.max == nil
		return ex
	}
	if exactFirst {
		for _, e := range es {
			if e.s == q {
				ex.exact = true
				return ex
			}
		}
	}
	c, err := semver.NewConstraint(q)
	if err != nil {
		ex.wantErr = true
		return ex
	}
	ex.con = c
	for _, e := range es {
		if needURLs && !e.urls {
			continue
		}
		if !c.Check(e.v) {
			continue
		}
		if ex.max == nil || e.v.Compare(ex.max) > 0 {
			ex.max = e.v
		}
	}
	ex.wantErr = ex.max == nil
	return ex
}

// ---------------------------------------------------------------- queries

type query struct {
	q    string
	kind string
}

func genQueries(rng *rand.Rand, cs chartSpec, n int) []query {
	qs := []query{{"", "empty"}}
	seen := map[string]bool{"": true}
	add := func(q, kind string) {
		if !seen[q] {
			seen[q] = true
			qs = append(qs, query{q, kind})
		}
	}
	for _, es := range cs.Entries {
		if es.Version != "" && (es.Kind == "valid" || es.Kind == "invalid-version") {
			add(es.Version, "exact-present")
			if es.Kind == "valid" && rng.Intn(3) == 0 {
				add(respell(rng, es.Version), "respelled")
			}
		}
	}
	base := func() string {
		if len(cs.Entries) > 0 && rng.Intn(3) > 0 {
			if es := cs.Entries[rng.Intn(len(cs.Entries))]; es.Kind == "valid" {
				if v, err := semver.NewVersion(es.Version); err == nil {
					return fmt.Sprintf("%d.%d.%d", v.Major(), v.Minor(), v.Patch())
				}
			}
		}
		return fmt.Sprintf("%d.%d.%d", rng.Intn(3), rng.Intn(3), rng.Intn(3))
	}
	mm := func(b string) string { return b[:strings.LastIndexByte(b, '.')] }
	m := func(b string) string { return b[:strings.IndexByte(b, '.')] }
	for i := 0; i < n; i++ {
		b := base()
		switch rng.Intn(16) {
		case 0:
			add("^"+b, "caret")
		case 1:
			add("^"+mm(b), "caret")
		case 2:
			add("~"+b, "tilde")
		case 3:
			add("~"+mm(b), "tilde")
		case 4:
			add(">="+b+" <"+base(), "range")
		case 5:
			add(b+" - "+base(), "hyphen-range")
		case 6:
			add([]string{">", "<", ">=", "<=", "!=", "="}[rng.Intn(6)]+b, "comparison")
		case 7:
			add([]string{"*", "x", m(b) + ".x", mm(b) + ".x", m(b) + ".*", m(b)}[rng.Intn(6)], "wildcard")
		case 8:
			add("^"+b+" || ~"+base(), "or")
		case 9:
			add("<"+b+" || >="+base(), "or")
		case 10:
			add([]string{">=" + b + "-0", "^" + b + "-alpha", ">0.0.0-0", "~" + b + "-0", ">=" + b + "-beta <" + base() + "-0"}[rng.Intn(5)], "prerelease-including")
		case 11:
			add(b+"-"+preParts[rng.Intn(len(preParts))], "absent-or-exact-prerelease")
		case 12:
			add(fmt.Sprintf("%d.%d.%d", 7+rng.Intn(3), rng.Intn(3), rng.Intn(3)), "absent")
		case 13:
			add([]string{"latest", ">>1", "1.2.3.4.5", "^", "~>", "||", "1.0.0 ||", "!", "^a.b", "=>1"}[rng.Intn(10)], "garbage")
		case 14:
			add(">="+m(b)+", <"+fmt.Sprint(3+rng.Intn(9)), "comma-range")
		default:
			add(">"+mm(b)+" <="+base()+"+b", "range")
		}
	}
	return qs
}

// ---------------------------------------------------------------- run

func quiet() {
	log.SetOutput(io.Discard)
	slog.SetDefault(slog.New(slog.NewTextHandler(io.Discard, nil)))
}

// guard runs f; a panic becomes a violation with a stable class (entry point, top helm frame,
// whether the index holds a null entry).
func guard(res *core.Result, ep string, sp indexSpec, detail func() string, f func()) (panicked bool) {
	defer func() {
		if x := recover(); x != nil {
			panicked = true
			st := string(debug.Stack())
			fr := "?"
			for _, ln := range strings.Split(st, "\n") {
				if strings.HasPrefix(ln, "helm.sh/helm/v4/") && !strings.Contains(ln, "verifh") {
					fr = ln[:strings.LastIndexByte(ln, '(')]
					fr = strings.TrimPrefix(fr, "helm.sh/helm/v4/")
					break
				}
			}
			shape := "index without null entries"
			if sp.hasNull() {
				shape = "index with a null entry"
			}
			if len(st) > 1800 {
				st = st[:1800]
			}
			res.Add("panic", fmt.Sprintf("%s on %s @ %s", ep, shape, fr), "panic: %v | %s | %s", x, detail(), st)
		}
	}()
	f()
	return false
}

func run(c core.Case, verbose bool) core.Result {
	quiet()
	var d caseData
	core.U(c, &d)
	var res core.Result
	dir, err := os.MkdirTemp("", "c18-")
	if err != nil {
		res.Inconclusive = err.Error()
		return res
	}
	defer os.RemoveAll(dir)
	for j := 0; j < d.N; j++ {
		if d.Only != 0 && d.Only != j+1 {
			continue
		}
		rng := rand.New(rand.NewSource(d.Seed + int64(j)*7919))
		sp := genIndex(rng)
		oneIndex(&res, rng, sp, dir, j, verbose)
	}
	return res
}

func trunc(s string, n int) string {
	if len(s) > n {
		return s[:n] + "..."
	}
	return s
}

func oneIndex(res *core.Result, rng *rand.Rand, sp indexSpec, dir string, j int, verbose bool) {
	data := sp.bytes()
	repoName := fmt.Sprintf("r%d", j)
	file := filepath.Join(dir, helmpath.CacheIndexFile(repoName))
	if err := os.WriteFile(file, data, 0o644); err != nil {
		res.Inconclusive = err.Error()
		return
	}
	defer os.Remove(file)
	bad := sp.badKinds()
	fileDetail := func() string {
		return fmt.Sprintf("index #%d (%s, %s): %s", j+1, sp.Format, bad, trunc(string(data), 1500))
	}
	if verbose {
		fmt.Printf("---- index #%d format=%s bad=%s\n%s\n", j+1, sp.Format, bad, data)
	}
	res.Stat("indexes_loaded", 1)
	res.Stat("indexes_"+sp.Format, 1)
	res.Evals++

	var idx *repo.IndexFile
	var lerr error
	if guard(res, "LoadIndexFile", sp, fileDetail, func() { idx, lerr = repo.LoadIndexFile(file) }) {
		res.Stat("load_panics", 1)
		res.Key("%s|%s|load|panic", sp.Format, bad)
		return
	}
	mayReject := sp.WrongType != "" || sp.NoAPI
	if lerr != nil {
		res.Key("%s|%s|load|error", sp.Format, bad)
		res.Stat("loads_rejected", 1)
		if !mayReject {
			res.Add("load-error-on-acceptable-file", "format="+sp.Format, "LoadIndexFile failed (%v) although the file only has droppable entries | %s", lerr, fileDetail())
		}
		return
	}
	res.Key("%s|%s|load|ok", sp.Format, bad)

	// ---- well-formedness of Entries
	wfClass := "format=" + sp.Format
	for _, cs := range sp.Charts {
		vs := idx.Entries[cs.Name]
		okList := true
		var loaded []string
		for i, e := range vs {
			switch {
			case e == nil:
				res.Add("entries-nil-entry", wfClass, "Entries[%q][%d] is nil after load | %s", cs.Name, i, fileDetail())
				okList = false
			case e.Metadata == nil:
				res.Add("entries-metadata-less-entry", wfClass, "Entries[%q][%d] has no metadata | %s", cs.Name, i, fileDetail())
				okList = false
			case e.Name == "":
				res.Add("entries-nameless-entry", wfClass, "Entries[%q][%d] has no name (version %q) | %s", cs.Name, i, e.Version, fileDetail())
				okList = false
			default:
				if _, err := semver.NewVersion(e.Version); err != nil {
					res.Add("entries-invalid-version", wfClass, "Entries[%q][%d] has version %q which is not a semantic version | %s", cs.Name, i, e.Version, fileDetail())
					okList = false
				} else {
					loaded = append(loaded, e.Version)
				}
			}
		}
		if !okList {
			return // queries on such a list would only repeat the finding (or crash)
		}
		for i := 1; i < len(vs); i++ {
			a, _ := semver.NewVersion(vs[i-1].Version)
			b, _ := semver.NewVersion(vs[i].Version)
			if a.Compare(b) < 0 {
				res.Add("entries-not-sorted-newest-first", wfClass, "Entries[%q]: %q stands before %q | loaded order %v | %s", cs.Name, vs[i-1].Version, vs[i].Version, loaded, fileDetail())
				break
			}
		}
		var want []string
		for _, e := range validEntries(cs) {
			want = append(want, e.s)
		}
		sort.Strings(want)
		got := append([]string(nil), loaded...)
		sort.Strings(got)
		if strings.Join(want, "\x00") != strings.Join(got, "\x00") {
			res.Add("entries-differ-from-valid-entries-of-file", wfClass, "chart %q: valid version strings in file %v, loaded %v | %s", cs.Name, want, got, fileDetail())
		}
		res.Stat("entry_lists_checked", 1)
		res.Stat("entries_checked", int64(len(vs)))
	}

	// ---- queries
	var reqs []*chart.Dependency
	var reqExp []expectation
	var reqKinds []string
	repoNames := map[string]string{}
	for _, cs := range sp.Charts {
		es := validEntries(cs)
		qs := genQueries(rng, cs, 8)
		var tags, tagsSorted []string
		for _, e := range cs.Entries {
			if e.Version != "" && e.Kind != "no-name" {
				tags = append(tags, e.Version)
			}
		}
		tagsSorted = sortedTags(tags)
		var tagEntries []refEntry
		for _, t := range tags {
			if v, err := semver.NewVersion(t); err == nil {
				tagEntries = append(tagEntries, refEntry{t, v, true})
			}
		}
		for _, q := range qs {
			// IndexFile.Get
			exp := refQuery(es, q.q, true, false)
			var cv *repo.ChartVersion
			var gerr error
			qDetail := func() string {
				return fmt.Sprintf("chart %q query %q (%s) | valid versions in file: %v | %s", cs.Name, q.q, q.kind, versionsOf(es), fileDetail())
			}
			if guard(res, "IndexFile.Get", sp, qDetail, func() { cv, gerr = idx.Get(cs.Name, q.q) }) {
				continue
			}
			got := ""
			if gerr == nil && cv != nil {
				got = cv.Version
			}
			out := judge(res, "get", fmt.Sprintf("query=%s format=%s", q.kind, sp.Format), exp, q.q, got, gerr, qDetail)
			res.Stat("get_queries_compared", 1)
			res.Stat("constraint_kind_"+q.kind, 1)
			res.Key("%s|%s|Get|%s|%s", sp.Format, bad, q.kind, out)
			res.Evals++
			if verbose {
				fmt.Printf("  Get(%q,%q) -> %q err=%v   expect %s\n", cs.Name, q.q, got, gerr, exp)
			}

			// registry.GetTagMatchingVersionOrConstraint: sorted list => full clause; as-given => weak clause
			for _, mode := range []string{"sorted", "as-given"} {
				tl := tagsSorted
				if mode == "as-given" {
					tl = tags
				}
				texp := refQuery(tagEntries, q.q, true, false)
				// the exact-match clause applies to any tag string, valid or not
				if q.q != "" {
					for _, t := range tl {
						if t == q.q {
							texp = expectation{exact: true}
						}
					}
				}
				var tag string
				var terr error
				tDetail := func() string { return fmt.Sprintf("tags (%s) %v query %q (%s)", mode, tl, q.q, q.kind) }
				if guard(res, "GetTagMatchingVersionOrConstraint", sp, tDetail, func() { tag, terr = registry.GetTagMatchingVersionOrConstraint(tl, q.q) }) {
					continue
				}
				if mode == "as-given" && !texp.exact && !texp.wantErr {
					texp.max = nil // only satisfaction is demanded on unsorted lists
				}
				out := judge(res, "tags-"+mode, fmt.Sprintf("query=%s", q.kind), texp, q.q, tag, terr, tDetail)
				res.Stat("tag_queries_compared", 1)
				res.Key("tags|%s|%s|%s", mode, q.kind, out)
				res.Evals++
			}

			// resolver: no exact-string clause, entries need URLs; "" is not a range
			if q.q != "" && len(reqs) < 24 {
				reqs = append(reqs, &chart.Dependency{Name: cs.Name, Version: q.q, Repository: "http://repo.example.test/charts"})
				reqExp = append(reqExp, refQuery(es, q.q, false, true))
				reqKinds = append(reqKinds, q.kind)
			}
		}
		repoNames[cs.Name] = repoName
	}

	// ---- resolver.Resolve: one dependency per call (an unsatisfiable one fails the whole call)
	for i, rq := range reqs {
		exp := reqExp[i]
		var lock *chart.Lock
		var rerr error
		rDetail := func() string {
			var cs chartSpec
			for _, c := range sp.Charts {
				if c.Name == rq.Name {
					cs = c
				}
			}
			return fmt.Sprintf("dependency %q range %q (%s) | valid versions with urls: %v | %s", rq.Name, rq.Version, reqKinds[i], versionsWithURLs(validEntries(cs)), fileDetail())
		}
		if guard(res, "resolver.Resolve", sp, rDetail, func() {
			lock, rerr = resolver.New(dir, dir, nil).Resolve([]*chart.Dependency{rq}, repoNames)
		}) {
			continue
		}
		got := ""
		if rerr == nil {
			if lock == nil || len(lock.Dependencies) != 1 || lock.Dependencies[0] == nil {
				res.Add("resolve-malformed-lock", "query="+reqKinds[i], "Resolve returned no error but lock %+v | %s", lock, rDetail())
				continue
			}
			got = lock.Dependencies[0].Version
			if lock.Dependencies[0].Name != rq.Name {
				res.Add("resolve-malformed-lock", "query="+reqKinds[i], "lock names %q for dependency %q | %s", lock.Dependencies[0].Name, rq.Name, rDetail())
			}
		}
		out := judge(res, "resolve", fmt.Sprintf("query=%s format=%s", reqKinds[i], sp.Format), exp, rq.Version, got, rerr, rDetail)
		res.Stat("resolver_queries_compared", 1)
		res.Key("%s|%s|Resolve|%s|%s", sp.Format, bad, reqKinds[i], out)
		res.Evals++
		if verbose {
			fmt.Printf("  Resolve(%q %q) -> %q err=%v   expect %s\n", rq.Name, rq.Version, got, rerr, exp)
		}
	}
	// and once all satisfiable dependencies together (multi-dependency lock)
	var all []*chart.Dependency
	var allExp []expectation
	seenDep := map[string]bool{}
	for i, rq := range reqs {
		if !reqExp[i].wantErr && !seenDep[rq.Name] {
			seenDep[rq.Name] = true
			all = append(all, rq)
			allExp = append(allExp, reqExp[i])
		}
	}
	if len(all) > 1 {
		var lock *chart.Lock
		var rerr error
		mDetail := func() string { return fmt.Sprintf("multi-dependency resolve %s | %s", depsString(all), fileDetail()) }
		if !guard(res, "resolver.Resolve", sp, mDetail, func() { lock, rerr = resolver.New(dir, dir, nil).Resolve(all, repoNames) }) {
			if rerr != nil || lock == nil || len(lock.Dependencies) != len(all) {
				res.Add("resolve-error-when-some-satisfy", "query=multi", "Resolve of individually satisfiable dependencies failed: %v | %s", rerr, mDetail())
			} else {
				for i, ld := range lock.Dependencies {
					judge(res, "resolve", "query=multi", allExp[i], all[i].Version, ld.Version, nil, mDetail)
				}
			}
			res.Stat("resolver_multi_locks_compared", 1)
		}
	}
	// ---- OCI route: the registry's (paginated) tag list stands in for the index
	if j%2 == 0 && len(sp.Charts) > 0 {
		ociRoute(res, rng, sp, sp.Charts[rng.Intn(len(sp.Charts))], dir, j, verbose)
	}
	if res.Sample == nil && len(sp.Charts) > 0 && len(sp.Charts[0].Entries) > 3 {
		res.Sample = map[string]any{"format": sp.Format, "bad_kinds": bad, "chart": sp.Charts[0].Name, "versions_in_file": specVersions(sp.Charts[0]), "queries": len(reqs)}
	}
}

func (e expectation) String() string {
	switch {
	case e.wantErr:
		return "error"
	case e.exact:
		return "identical string"
	case e.max != nil:
		return "precedence of " + e.max.Original()
	}
	return "any satisfying"
}

// judge compares helm's answer with the expectation; returns the outcome class.
func judge(res *core.Result, ep, class string, exp expectation, q, got string, gerr error, detail func() string) string {
	maxS := "(some entry)"
	if exp.max != nil {
		maxS = exp.max.Original()
	}
	if exp.wantErr {
		if gerr == nil {
			res.Add(ep+"-found-when-none-satisfies", class, "returned %q although no valid entry satisfies %q | %s", got, q, detail())
		}
		return "none"
	}
	if gerr != nil {
		if exp.exact {
			res.Add(ep+"-error-although-identical-string-exists", class, "error %v although an entry with exactly the version string %q exists | %s", gerr, q, detail())
		} else {
			res.Add(ep+"-error-when-some-satisfy", class, "error %v although %q (and possibly others) satisfies %q | %s", gerr, maxS, q, detail())
		}
		return "found"
	}
	if exp.exact {
		if got != q {
			res.Add(ep+"-identical-string-not-returned", class, "returned %q although an entry with exactly the version string %q exists | %s", got, q, detail())
		}
		return "exact"
	}
	gv, err := semver.NewVersion(got)
	if err != nil {
		res.Add(ep+"-returned-invalid-version", class, "returned %q which is not a semantic version | %s", got, detail())
		return "found"
	}
	if exp.stable && gv.Prerelease() != "" {
		res.Add(ep+"-empty-query-returned-prerelease", class, "empty version query returned pre-release %q; highest stable is %q | %s", got, maxS, detail())
		return "found"
	}
	if exp.con != nil && !exp.con.Check(gv) {
		res.Add(ep+"-result-does-not-satisfy", class, "returned %q which does not satisfy %q | %s", got, q, detail())
		return "found"
	}
	if exp.max != nil && gv.Compare(exp.max) != 0 {
		res.Add(ep+"-not-the-highest", class, "returned %q but %q is higher and also satisfies %q | %s", got, maxS, q, detail())
	}
	return "found"
}

func sortedTags(tags []string) []string {
	type tv struct {
		s string
		v *semver.Version
	}
	var ok []tv
	var bad []string
	for _, t := range tags {
		if v, err := semver.NewVersion(t); err == nil {
			ok = append(ok, tv{t, v})
		} else {
			bad = append(bad, t)
		}
	}
	sort.SliceStable(ok, func(i, j int) bool { return ok[i].v.Compare(ok[j].v) > 0 })
	var out []string
	for _, t := range ok {
		out = append(out, t.s)
	}
	return append(out, bad...)
}

func versionsOf(es []refEntry) []string {
	var o []string
	for _, e := range es {
		o = append(o, e.s)
	}
	return o
}
func versionsWithURLs(es []refEntry) []string {
	var o []string
	for _, e := range es {
		if e.urls {
			o = append(o, e.s)
		}
	}
	return o
}
func specVersions(cs chartSpec) []string {
	var o []string
	for _, e := range cs.Entries {
		if e.Kind == "valid" || e.Kind == "invalid-version" {
			o = append(o, e.Version)
		} else {
			o = append(o, "<"+e.Kind+">")
		}
	}
	return o
}
func depsString(ds []*chart.Dependency) string {
	var p []string
	for _, d := range ds {
		p = append(p, d.Name+"@"+d.Version)
	}
	return strings.Join(p, ", ")
}

func post(a *core.Agg) string {
	if a.Stats["get_queries_compared"] < 1000 || a.Stats["resolver_queries_compared"] < 500 || a.Stats["tag_queries_compared"] < 1000 {
		return fmt.Sprintf("too few queries compared (get %d, resolver %d, tags %d)", a.Stats["get_queries_compared"], a.Stats["resolver_queries_compared"], a.Stats["tag_queries_compared"])
	}
	return ""
}
