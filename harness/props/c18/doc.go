// Package c18: monitor for property C18 (see DESIGN.md section 3).
package c18
