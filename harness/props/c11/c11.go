// Package c11: subcharts see only their own and global values; disabled ones vanish.
//
// Every generated dependency tree (root -> 1-3 children -> 0-2 grandchildren -> 0-1 great-grandchildren, aliases, the same chart
// used twice under different aliases) carries in each chart a probe template printing
// `{{ toYaml .Values }}`, a hook, a CRD file and a tiny schema. Leaves are unique sentinels naming
// their source (chart / section / user section / global), so the provenance of every printed leaf is
// identifiable without the reference merge. Trees are rendered through
// ProcessDependencies + ToRenderValues + engine.Render and through a client-only dry-run
// action.Install (--include-crds). Oracles:
//
//	enabled rule      exactly as worded (first condition path resolving to a bool in the parent's
//	                  effective values decides; else disabled iff some tag false and none true);
//	                  truth tables over condition/tag states are enumerated exhaustively (table.go)
//	rendered set      templates, hooks, CRDs of exactly the enabled charts; aliased charts only under
//	                  the alias; a schema violation inside a disabled dependency must not reject
//	scope values      each probe's .Values == own defaults overridden by the parent's section, plus
//	                  globals merged top-down with the ancestor winning (ref.MergeKeep/ApplyDefaults)
//	provenance        no leaf of a parent-private / sibling source in a chart's private values
//	real install      a real action.Install against the simulated API server (trees with a disabled
//	                  dependency): no CustomResourceDefinition of a disabled chart is POSTed, those of
//	                  the enabled charts are (positive control), judged on the request log
//	sibling tables    (sibling.go) a sibling's top-level `tags:` table / keys named like a cousin's condition
//	                  path, in its values.yaml or sections: rendered with and without them, everything
//	                  outside that sibling must be identical (864 rows, exhaustive; isolation only)
//	isolation         re-render with only one sibling's section perturbed: nobody outside that
//	                  subtree (ancestors: outside the section) may print anything different
//
// Don't-care zones: import-values (excluded); tags for nested levels (only set at the root; what a
// chart's own top-level tags table does to its own dependencies is never judged); nulls
// and type flips inside `global` (not generated: "ancestor wins" is not spelled out for them);
// that an enabled dependency's schema violation IS rejected (C14 owns it; counted only); the parent
// seeing its children's coalesced sections (documented). Unlisted subcharts (present in charts/ but
// not in Chart.yaml) are generated in a separate stratum whose signatures carry a suffix.
package c11

import (
	"fmt"
	"math/rand"

	"helm.sh/helm/v4/verifh/core"
	"helm.sh/helm/v4/verifh/env"
)

type caseData struct {
	Stratum string `json:"stratum"` // table1 | table2 | tree | unlisted
	Seed    int64  `json:"seed,omitempty"`
	Lo      int    `json:"lo"`
	Hi      int    `json:"hi"`
	Only    int    `json:"only"` // replay aid: run just this index (-1 = all)
}

func init() {
	core.Register(&core.Prop{
		ID:    "C11",
		Level: "exploration",
		Rule: "exhaustive truth tables of the enabled rule (depth 1: 357 condition-path state combinations x 73 tag state combinations x alias; depth 2: 357 x alias of parent x alias of dependency x where the parent-level default lives; depth 3, i.e. four charts deep: the same 2,856 rows for top -> mid -> inner -> leaf) plus seeded random dependency trees (root -> children -> grandchildren -> great-grandchildren in about a third of the trees) with aliases, repeated dependencies, sentinel leaves, nested globals at every level, one isolation re-render per tree and an unlisted-subchart stratum; every tree is rendered through engine.Render and through a client-only dry-run install. " +
			"evaluations counts renders. distinct_nontrivial counts distinct (condition shape, deciding clause, outcome) table cells and distinct tree shapes (per dependency: relation, alias, conditions/tags present, deciding clause, on/off) among trees that have a disabled or aliased dependency or more than one dependency.",
		Assumptions: []string{
			"the reference (ref.ApplyDefaults/MergeKeep + a 25-line enabled rule + top-down global merge) states the property's sentences",
			"probe output parsed back with sigs.k8s.io/yaml is what the template saw (toYaml is loss-free for the generated leaves: strings, bools, small ints, lists, maps)",
		},
		Exhaustive:     func(tier string) bool { return false },
		Gen:            genCases,
		Run:            run,
		Post:           post,
		CaseTimeoutSec: 900,
	})
}

func genCases(seed int64, tier string) []core.Case {
	rng := rand.New(rand.NewSource(seed*15485863 + 11))
	var out []core.Case
	chunk := 1500
	for lo := 0; lo < nRows1; lo += chunk {
		hi := min(lo+chunk, nRows1)
		out = append(out, core.Case{ID: fmt.Sprintf("table1-%d", lo), Data: core.J(caseData{Stratum: "table1", Lo: lo, Hi: hi, Only: -1})})
	}
	for lo := 0; lo < nRows2; lo += 476 {
		hi := min(lo+476, nRows2)
		out = append(out, core.Case{ID: fmt.Sprintf("table2-%d", lo), Data: core.J(caseData{Stratum: "table2", Lo: lo, Hi: hi, Only: -1})})
	}
	for lo := 0; lo < nRows3; lo += 476 {
		hi := min(lo+476, nRows3)
		out = append(out, core.Case{ID: fmt.Sprintf("table3-%d", lo), Data: core.J(caseData{Stratum: "table3", Lo: lo, Hi: hi, Only: -1})})
	}
	for lo := 0; lo < nSibRows; lo += 432 {
		out = append(out, core.Case{ID: fmt.Sprintf("sibling-tables-%d", lo), Data: core.J(caseData{Stratum: "sibling-tables", Lo: lo, Hi: min(lo+432, nSibRows), Only: -1})})
	}
	nt, per, nu := 16, 100, 4
	if tier == "thorough" {
		nt, per, nu = 160, 400, 16
	}
	for i := 0; i < nt; i++ {
		out = append(out, core.Case{ID: fmt.Sprintf("tree-%d", i), Data: core.J(caseData{Stratum: "tree", Seed: rng.Int63(), Lo: 0, Hi: per, Only: -1})})
	}
	for i := 0; i < nu; i++ {
		out = append(out, core.Case{ID: fmt.Sprintf("unlisted-%d", i), Data: core.J(caseData{Stratum: "unlisted", Seed: rng.Int63(), Lo: 0, Hi: per, Only: -1})})
	}
	return out
}

func run(c core.Case, verbose bool) core.Result {
	env.Quiet()
	var d caseData
	core.U(c, &d)
	var res core.Result
	switch d.Stratum {
	case "table1":
		for lo := d.Lo; lo < d.Hi; lo += 3 {
			if d.Only >= 0 && (d.Only < lo || d.Only >= lo+3) {
				continue
			}
			checkTree(&res, table1Input(lo), lo, verbose)
		}
	case "sibling-tables":
		for r := d.Lo; r < d.Hi; r++ {
			if d.Only >= 0 && d.Only != r {
				continue
			}
			checkSibling(&res, r, verbose)
		}
	case "table2", "table3":
		for r := d.Lo; r < d.Hi; r++ {
			if d.Only >= 0 && d.Only != r {
				continue
			}
			if d.Stratum == "table3" {
				checkTree(&res, table3Input(r), r, verbose)
			} else {
				checkTree(&res, table2Input(r), r, verbose)
			}
		}
	default:
		for i := d.Lo; i < d.Hi; i++ {
			if d.Only >= 0 && d.Only != i {
				continue
			}
			rng := rand.New(rand.NewSource(d.Seed ^ int64(i+1)*0x9E3779B97F4A7C))
			in := genTreeInput(rng, d.Stratum)
			checkTree(&res, in, i, verbose)
			if res.Sample == nil && i > 3 && len(in.Root.Deps) >= 2 {
				res.Sample = map[string]any{"stratum": d.Stratum, "tree_and_user_values": splitLines(in.describe())}
			}
		}
	}
	return res
}

func splitLines(s string) []string {
	var out []string
	cur := ""
	for _, r := range s {
		if r == '\n' {
			out = append(out, cur)
			cur = ""
			continue
		}
		cur += string(r)
	}
	return append(out, cur)
}

func post(a *core.Agg) string {
	need := map[string]int64{
		"truth_table_rows_table1":                          int64(nRows1),
		"truth_table_rows_table2":                          int64(nRows2),
		"truth_table_rows_table3":                          int64(nRows3),
		"sibling_table_rows":                               int64(nSibRows),
		"sibling_isolation_pairs_compared":                 int64(nSibRows),
		"instances_four_charts_deep":                       1000,
		"probes_parsed":                                    20000,
		"sentinel_leaves_checked":                          20000,
		"isolation_probe_pairs_compared":                   1000,
		"disabled_instances":                               5000,
		"aliased_instances":                                5000,
		"schema_violations_in_disabled_dependency_ignored": 20,
		"real_installs_on_simulated_cluster":               500,
		"crds_of_disabled_charts_checked":                  500,
		"crds_of_enabled_charts_seen_posted":               500,
	}
	for k, min := range need {
		if a.Stats[k] < min {
			return fmt.Sprintf("monitor saw too little: %s = %d < %d", k, a.Stats[k], min)
		}
	}
	return ""
}
