// Package c11: monitor for property C11 (see DESIGN.md section 3).
package c11
