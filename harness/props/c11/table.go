package c11

import (
	"fmt"
)

// Exhaustive truth tables for the enabled rule.
//
// A condition path takes one of these states (U = user values, P = the parent chart's values.yaml,
// O = the dependency's own values.yaml; T/F = booleans, N = a non-boolean):
var path1States = []struct{ U, P, O string }{
	{}, {U: "T"}, {U: "F"}, {U: "N"}, {P: "T"}, {P: "F"}, {P: "N"}, {O: "T"}, {O: "F"}, {O: "N"},
	{U: "T", P: "F"}, {U: "F", O: "T"}, {P: "T", O: "F"}, {U: "N", O: "T"}, {U: "null", O: "T"},
}

// path2 (`feat.<name>`) lives in the parent's own values: only U and P exist.
var path2States = []struct{ U, P string }{
	{}, {U: "T"}, {U: "F"}, {U: "N"}, {P: "T"}, {P: "F"}, {P: "N"},
	{U: "T", P: "F"}, {U: "F", P: "T"}, {U: "N", P: "T"}, {U: "null", P: "T"},
}

// tag states: U = user `tags:`, D = root values.yaml `tags:`
var tagStates = []struct{ U, D string }{
	{}, {U: "T"}, {U: "F"}, {D: "T"}, {D: "F"}, {U: "T", D: "F"}, {U: "F", D: "T"}, {U: "N"},
}

const (
	nCond  = 1 + 15 + 11 + 165 + 165 // none | [p1] | [p2] | [p1,p2] | [p2,p1]
	nTags  = 1 + 8 + 64              // none | {t1} | {t1,t2}
	nRows1 = nCond * nTags * 2       // x alias
	nRows2 = nCond * 2 * 2 * 2       // x mid alias x leaf alias x P placed in root's section
	nRows3 = nCond * 2 * 2 * 2       // x inner alias x leaf alias x P placed in mid's section for inner
)

type condSpec struct {
	order  string // "", "1", "2", "12", "21"
	s1, s2 int
}

func decodeCond(ck int) condSpec {
	switch {
	case ck == 0:
		return condSpec{}
	case ck < 16:
		return condSpec{order: "1", s1: ck - 1}
	case ck < 27:
		return condSpec{order: "2", s2: ck - 16}
	case ck < 192:
		k := ck - 27
		return condSpec{order: "12", s1: k / 11, s2: k % 11}
	}
	k := ck - 192
	return condSpec{order: "21", s1: k / 11, s2: k % 11}
}

func flag(code string, variety int) (any, bool) {
	switch code {
	case "T":
		return true, true
	case "F":
		return false, true
	case "N":
		return []any{"true", float64(1), map[string]any{"x": float64(1)}}[variety%3], true
	case "null":
		return nil, true
	}
	return nil, false
}

func ensure(m map[string]any, k string) map[string]any {
	next, _ := m[k].(map[string]any)
	if next == nil {
		next = map[string]any{}
		m[k] = next
	}
	return next
}

// applyCond writes the states of a condition spec into the three sources. userPar / defPar are the
// parent's maps in user values and in the values.yaml that plays "P"; own is the dependency's values.yaml.
func applyCond(cs condSpec, name string, userPar, defPar, own map[string]any, variety int) []string {
	var cond []string
	for _, o := range cs.order {
		if o == '1' {
			cond = append(cond, name+".enabled")
		} else {
			cond = append(cond, "feat."+name)
		}
	}
	if cs.order == "1" || cs.order == "12" || cs.order == "21" {
		st := path1States[cs.s1]
		if v, ok := flag(st.U, variety); ok {
			ensure(userPar, name)["enabled"] = v
		}
		if v, ok := flag(st.P, variety+1); ok {
			ensure(defPar, name)["enabled"] = v
		}
		if v, ok := flag(st.O, variety+2); ok {
			own["enabled"] = v
		}
	}
	if cs.order == "2" || cs.order == "12" || cs.order == "21" {
		st := path2States[cs.s2]
		if v, ok := flag(st.U, variety); ok {
			ensure(userPar, "feat")[name] = v
		}
		if v, ok := flag(st.P, variety+1); ok {
			ensure(defPar, "feat")[name] = v
		}
	}
	return cond
}

// table1Input builds one tree whose root has up to three dependencies, each realising one row of
// the depth-1 table (rows lo, lo+1, lo+2).
func table1Input(lo int) treeInput {
	s := &sgen{}
	root := &chartDef{Name: "top", Values: map[string]any{"p1": s.own("top")}}
	user := map[string]any{}
	var notes []string
	for i := 0; i < 3 && lo+i < nRows1; i++ {
		row := lo + i
		alias := row % 2
		tk := (row / 2) % nTags
		ck := row / 2 / nTags
		def := &chartDef{Name: fmt.Sprintf("lib%d", i), Values: map[string]any{"p1": s.own(fmt.Sprintf("lib%d", i)), "global": map[string]any{"gk1": s.glob(fmt.Sprintf("lib%d", i))}}}
		d := &dep{Def: def}
		if alias == 1 {
			d.Alias = fmt.Sprintf("al%d", i)
		}
		d.Cond = applyCond(decodeCond(ck), d.name(), user, root.Values, def.Values, row)
		t1, t2 := fmt.Sprintf("t1x%d", i), fmt.Sprintf("t2x%d", i)
		setTag := func(tag string, st int) {
			if v, ok := flag(tagStates[st].U, row); ok {
				ensure(user, "tags")[tag] = v
			}
			if v, ok := flag(tagStates[st].D, row); ok {
				ensure(root.Values, "tags")[tag] = v
			}
		}
		switch {
		case tk == 0:
		case tk < 9:
			d.Tags = []string{t1}
			setTag(t1, tk-1)
		default:
			d.Tags = []string{t1, t2}
			setTag(t1, (tk-9)/8)
			setTag(t2, (tk-9)%8)
		}
		root.Deps = append(root.Deps, d)
		notes = append(notes, fmt.Sprintf("row %d: dep %s cond=%v tags=%v", row, d.name(), d.Cond, d.Tags))
	}
	return treeInput{Root: root, User: user, Stratum: "table1", Note: fmt.Sprint(notes)}
}

// table2Input realises one row of the depth-2 table: top -> mid -> leaf, the leaf is under test.
func table2Input(row int) treeInput {
	s := &sgen{}
	rootSec := row % 2
	leafAlias := (row / 2) % 2
	midAlias := (row / 4) % 2
	ck := row / 8
	leafDef := &chartDef{Name: "leaf", Values: map[string]any{"p1": s.own("leaf")}}
	midDef := &chartDef{Name: "mid", Values: map[string]any{"p1": s.own("mid")}}
	root := &chartDef{Name: "top", Values: map[string]any{"p1": s.own("top"), "global": map[string]any{"gk1": s.glob("top")}}}
	ld := &dep{Def: leafDef}
	if leafAlias == 1 {
		ld.Alias = "lal"
	}
	md := &dep{Def: midDef}
	if midAlias == 1 {
		md.Alias = "mal"
	}
	user := map[string]any{}
	defPar := midDef.Values
	if rootSec == 1 {
		defPar = ensure(root.Values, md.name())
	}
	ld.Cond = applyCond(decodeCond(ck), ld.name(), ensure(user, md.name()), defPar, leafDef.Values, row)
	midDef.Deps = []*dep{ld}
	root.Deps = []*dep{md}
	return treeInput{Root: root, User: user, Stratum: "table2", Note: fmt.Sprintf("row %d: top -> %s -> %s cond=%v (P in %s)", row, md.name(), ld.name(), ld.Cond, []string{"mid's values.yaml", "top's section for mid"}[rootSec])}
}

// table3Input realises one row of the depth-3 table: top -> mid -> inner -> leaf (four charts deep),
// the leaf is under test; its condition is evaluated in inner's values.
func table3Input(row int) treeInput {
	s := &sgen{}
	pLoc := row % 2
	leafAlias := (row / 2) % 2
	innerAlias := (row / 4) % 2
	ck := row / 8
	leafDef := &chartDef{Name: "leaf", Values: map[string]any{"p1": s.own("leaf")}}
	innerDef := &chartDef{Name: "inner", Values: map[string]any{"p1": s.own("inner")}}
	midDef := &chartDef{Name: "mid", Values: map[string]any{"p1": s.own("mid")}}
	root := &chartDef{Name: "top", Values: map[string]any{"p1": s.own("top"), "global": map[string]any{"gk1": s.glob("top")}}}
	ld := &dep{Def: leafDef}
	if leafAlias == 1 {
		ld.Alias = "lal"
	}
	id := &dep{Def: innerDef}
	if innerAlias == 1 {
		id.Alias = "ial"
	}
	md := &dep{Def: midDef}
	user := map[string]any{}
	defPar := innerDef.Values
	if pLoc == 1 {
		defPar = ensure(midDef.Values, id.name())
	}
	ld.Cond = applyCond(decodeCond(ck), ld.name(), ensure(ensure(user, "mid"), id.name()), defPar, leafDef.Values, row)
	innerDef.Deps = []*dep{ld}
	midDef.Deps = []*dep{id}
	root.Deps = []*dep{md}
	return treeInput{Root: root, User: user, Stratum: "table3", Note: fmt.Sprintf("row %d: top -> mid -> %s -> %s cond=%v (P in %s)", row, id.name(), ld.name(), ld.Cond, []string{"inner's values.yaml", "mid's section for inner"}[pLoc])}
}
