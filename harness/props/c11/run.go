package c11

import (
	"fmt"
	"io"
	"sort"
	"strings"

	"sigs.k8s.io/yaml"

	"helm.sh/helm/v4/pkg/action"
	chartutil "helm.sh/helm/v4/pkg/chart/v2/util"
	"helm.sh/helm/v4/pkg/engine"
	kubefake "helm.sh/helm/v4/pkg/kube/fake"
	"helm.sh/helm/v4/pkg/storage"
	"helm.sh/helm/v4/pkg/storage/driver"

	"helm.sh/helm/v4/verifh/core"
	"helm.sh/helm/v4/verifh/env"
	"helm.sh/helm/v4/verifh/gen"
	"helm.sh/helm/v4/verifh/ref"
)

// observed is what one render route showed.
type observed struct {
	err       error
	templates map[string]bool           // rendered template paths (probe / hook files)
	hooks     map[string]bool           // install route: paths of hook objects
	crds      map[string]bool           // CRD file paths contributed
	probes    map[string]map[string]any // chart path -> .Values as printed by the probe
	parseErrs []string
}

func parseProbe(content string) (map[string]any, error) {
	var doc struct {
		Data struct {
			Values string `json:"values"`
		} `json:"data"`
	}
	if err := yaml.Unmarshal([]byte(content), &doc); err != nil {
		return nil, err
	}
	var v map[string]any
	if err := yaml.Unmarshal([]byte(doc.Data.Values), &v); err != nil {
		return nil, err
	}
	return ref.CanonMap(v), nil
}

func (o *observed) addTemplate(path, content string) {
	o.templates[path] = true
	if strings.HasSuffix(path, "/templates/probe.yaml") {
		v, err := parseProbe(content)
		if err != nil {
			o.parseErrs = append(o.parseErrs, path+": "+err.Error())
			return
		}
		o.probes[strings.TrimSuffix(path, "/templates/probe.yaml")] = v
	}
}

func newObserved() *observed {
	return &observed{templates: map[string]bool{}, hooks: map[string]bool{}, crds: map[string]bool{}, probes: map[string]map[string]any{}}
}

// renderEngine: ProcessDependencies + ToRenderValues + engine.Render (what `helm template` does inside).
func renderEngine(files gen.Files, user map[string]any) *observed {
	o := newObserved()
	ch := files.Build()
	vals := ref.CanonMap(user)
	if o.err = chartutil.ProcessDependencies(ch, vals); o.err != nil {
		return o
	}
	top, err := chartutil.ToRenderValues(ch, vals, chartutil.ReleaseOptions{Name: "r", Namespace: "ns", Revision: 1, IsInstall: true}, nil)
	if err != nil {
		o.err = err
		return o
	}
	out, err := engine.Render(ch, top)
	if err != nil {
		o.err = err
		return o
	}
	for p, c := range out {
		o.addTemplate(p, c)
	}
	for _, crd := range ch.CRDObjects() {
		o.crds[crd.Filename] = true
	}
	return o
}

// renderInstall: client-only dry-run action.Install with --include-crds.
func renderInstall(files gen.Files, user map[string]any) *observed {
	o := newObserved()
	ch := files.Build()
	cfg := &action.Configuration{
		KubeClient:   &kubefake.PrintingKubeClient{Out: io.Discard},
		Releases:     storage.Init(driver.NewMemory()),
		Capabilities: chartutil.DefaultCapabilities.Copy(),
	}
	in := action.NewInstall(cfg)
	in.ReleaseName, in.Namespace = "r", "ns"
	in.DryRun, in.ClientOnly, in.IncludeCRDs = true, true, true
	rel, err := in.Run(ch, ref.CanonMap(user))
	if err != nil {
		o.err = err
		return o
	}
	for _, doc := range strings.Split("\n"+rel.Manifest, "\n---\n") {
		doc = strings.TrimLeft(doc, "\n")
		if !strings.HasPrefix(doc, "# Source: ") {
			continue
		}
		nl := strings.Index(doc, "\n")
		if nl < 0 {
			continue
		}
		path := strings.TrimSpace(strings.TrimPrefix(doc[:nl], "# Source: "))
		if strings.Contains(path, "/crds/") {
			o.crds[path] = true
			continue
		}
		o.addTemplate(path, doc[nl+1:])
	}
	for _, h := range rel.Hooks {
		o.hooks[h.Path] = true
	}
	return o
}

func (in treeInput) describe() string {
	var b strings.Builder
	var rec func(d *chartDef, indent, as string)
	rec = func(d *chartDef, indent, as string) {
		fmt.Fprintf(&b, "%s%s values.yaml=%s\n", indent, as, ref.J(ref.Canon(d.Values)))
		for _, dd := range d.Deps {
			lbl := fmt.Sprintf("dep %s", dd.Def.Name)
			if dd.Alias != "" {
				lbl += " alias " + dd.Alias
			}
			if len(dd.Cond) > 0 {
				lbl += " condition=" + strings.Join(dd.Cond, ",")
			}
			if len(dd.Tags) > 0 {
				lbl += fmt.Sprintf(" tags=%v", dd.Tags)
			}
			rec(dd.Def, indent+"  ", lbl)
		}
		for _, u := range d.Unlisted {
			rec(u, indent+"  ", "unlisted subchart "+u.Name)
		}
	}
	rec(in.Root, "  ", "chart top")
	return fmt.Sprintf("stratum %s %s\n%suser values=%s", in.Stratum, in.Note, b.String(), ref.J(ref.Canon(in.User)))
}

// relName describes an instance by its tree relation (stable across seeds).
func relName(x *inst) string {
	s := []string{"", "root", "child", "grandchild", "great-grandchild", "deeper descendant"}[min(x.depth(), 5)]
	if x.Dep != nil && x.Dep.Alias != "" {
		s = "aliased " + s
	}
	if x.Unlisted {
		s = "unlisted " + s
	}
	if x.Parent != nil && x.Parent.Dep != nil && x.Parent.Dep.Alias != "" {
		s += " of aliased parent"
	}
	return s
}

func strat(in treeInput) string {
	if in.Stratum == "unlisted" {
		return " [unlisted-subchart stratum: " + in.Note + "]"
	}
	return ""
}

// checkTree renders the tree through both routes and judges everything. It returns the shape key.
func checkTree(res *core.Result, in treeInput, idx int, verbose bool) {
	files := gen.Files{}
	in.Root.files("", files)
	tree := instantiate(in.Root, nil, nil, in.Root.Name, false)
	on, why := decide(tree, in.User)
	expVals := scope(tree, ref.CanonMap(in.User), on)
	input := func() string { return fmt.Sprintf("input #%d: %s", idx, in.describe()) }

	var insts []*inst
	tree.walk(func(x *inst) { insts = append(insts, x) })
	live := map[*inst]bool{} // enabled and all ancestors enabled
	for _, x := range insts {
		live[x] = on[x] && (x.Parent == nil || live[x.Parent])
	}
	byPath := map[string]*inst{}
	origPath := map[string]*inst{} // path under the original chart names (must never appear for aliased charts)
	for _, x := range insts {
		byPath[x.path()] = x
	}
	for _, x := range insts {
		// every spelling of x's path in which at least one aliased chart of the chain appears under its original name
		var chain []*inst
		for a := x; a != nil; a = a.Parent {
			chain = append([]*inst{a}, chain...)
		}
		var rec func(i int, p string, usedOrig bool)
		rec = func(i int, p string, usedOrig bool) {
			if i == len(chain) {
				if usedOrig && byPath[p] == nil {
					origPath[p] = x
				}
				return
			}
			sep := "/charts/"
			if i == 0 {
				sep = ""
			}
			rec(i+1, p+sep+chain[i].Name, usedOrig)
			if chain[i].Dep != nil && chain[i].Dep.Alias != "" {
				rec(i+1, p+sep+chain[i].Def.Name, true)
			}
		}
		rec(0, "", false)
	}
	if verbose {
		fmt.Println(input())
		for _, x := range insts {
			fmt.Printf("  instance %-32s enabled=%v live=%v (%s)\n", x.path(), on[x], live[x], why[x])
		}
		fmt.Printf("  expected root .Values: %s\n", ref.J(expVals))
	}

	// schema: a violating value in the section of a disabled dependency must not reject the render
	var badInst *inst
	if in.SchemaBad != nil {
		for _, x := range insts {
			if strings.Join(x.keyPath(), ".") == strings.Join(in.SchemaBad, ".") {
				badInst = x
			}
		}
	}

	nDisabled, nAliased := 0, 0
	for _, x := range insts {
		if !live[x] {
			nDisabled++
		}
		if x.Dep != nil && x.Dep.Alias != "" {
			nAliased++
		}
	}

	routes := []struct {
		name string
		f    func(gen.Files, map[string]any) *observed
	}{{"engine", renderEngine}, {"install-dry-run", renderInstall}}
	var first *observed
	seen := map[string]bool{}
	setMismatch := false
	for _, rt := range routes {
		var o *observed
		if core.Guard(res, rt.name+" | "+input(), func() { o = rt.f(files, in.User) }) {
			continue
		}
		res.Evals++
		if first == nil {
			first = o
		}
		if verbose {
			fmt.Printf("  route %s: err=%v templates=%v crds=%v hooks=%v\n", rt.name, o.err, gen.SortedKeys(o.templates), gen.SortedKeys(o.crds), gen.SortedKeys(o.hooks))
		}
		if o.err != nil {
			if badInst != nil && live[badInst] && strings.Contains(o.err.Error(), "forbidden") {
				res.Stat("schema_rejections_for_enabled_dependency", 1)
				continue
			}
			if badInst != nil && !live[badInst] && strings.Contains(o.err.Error(), "forbidden") {
				da := disabledAncestor(badInst, on)
				add(res, seen, "disabled-dependency-contributes", fmt.Sprintf("schema check of a disabled %s rejected the values; disabled by %s%s", relOr(badInst, decidedBy(da, why[da], in.User)), decidedBy(da, why[da], in.User), strat(in)), "route %s: %v | %s", rt.name, o.err, input())
				continue
			}
			res.Add("render-error", rt.name+": "+firstWords(o.err.Error(), 5)+strat(in), "%v | %s", o.err, input())
			continue
		}
		if badInst != nil {
			if live[badInst] {
				res.Stat("schema_violation_on_enabled_not_rejected(C14_owns)", 1)
				if verbose {
					fmt.Printf("  NOTE: schema violation in the section of the enabled %s was not rejected\n", badInst.path())
				}
			} else {
				res.Stat("schema_violations_in_disabled_dependency_ignored", 1)
			}
		}
		for _, pe := range o.parseErrs {
			res.Add("probe-unparsable", rt.name, "%s | %s", pe, input())
		}

		// --- rendered set: templates, hooks, CRDs of exactly the live instances
		expT, expC := map[string]bool{}, map[string]bool{}
		for _, x := range insts {
			if live[x] {
				expT[x.path()+"/templates/probe.yaml"] = true
				expT[x.path()+"/templates/hook.yaml"] = true
				expC[x.path()+"/crds/crd.yaml"] = true
			}
		}
		got := map[string]bool{}
		for p := range o.templates {
			got[p] = true
		}
		for p := range o.hooks {
			got[p] = true
		}
		for p := range o.crds {
			got[p] = true
		}
		exp := map[string]bool{}
		for p := range expT {
			exp[p] = true
		}
		for p := range expC {
			exp[p] = true
		}
		kindOf := func(p string) string {
			switch {
			case strings.HasSuffix(p, "hook.yaml"):
				return "hook"
			case strings.Contains(p, "/crds/"):
				return "CRD"
			}
			return "template"
		}
		chartOf := func(p string) string { return p[:strings.LastIndex(p[:strings.LastIndex(p, "/")], "/")] }
		setOK := true
		// unexpected contributions, grouped by contributing chart
		extra := map[string]map[string]bool{}
		for p := range got {
			if !exp[p] {
				if extra[chartOf(p)] == nil {
					extra[chartOf(p)] = map[string]bool{}
				}
				extra[chartOf(p)][kindOf(p)] = true
			}
		}
		for _, cp := range gen.SortedKeys(extra) {
			setOK = false
			kinds := strings.Join(gen.SortedKeys(extra[cp]), "+")
			switch x := byPath[cp]; {
			case x != nil:
				da := disabledAncestor(x, on)
				add(res, seen, "disabled-dependency-contributes", fmt.Sprintf("%s of a disabled %s rendered; disabled by %s%s", kinds, relOr(x, decidedBy(da, why[da], in.User)), decidedBy(da, why[da], in.User), strat(in)),
					"route %s: %s contributes %s although %s is disabled (%s) | %s", rt.name, cp, kinds, da.path(), why[da], input())
			case origPath[cp] != nil:
				add(res, seen, "alias", fmt.Sprintf("%s of an %s appears under the original chart name%s", kinds, relName(origPath[cp]), strat(in)), "route %s: %s | %s", rt.name, cp, input())
			default:
				add(res, seen, "rendered-set", fmt.Sprintf("unexpected %s path%s", kinds, strat(in)), "route %s: %s | %s", rt.name, cp, input())
			}
			break
		}
		missing := map[string]map[string]bool{}
		for p := range exp {
			if !got[p] {
				if missing[chartOf(p)] == nil {
					missing[chartOf(p)] = map[string]bool{}
				}
				missing[chartOf(p)][kindOf(p)] = true
			}
		}
		for _, cp := range gen.SortedKeys(missing) {
			if !setOK {
				break // one cause per tree: the unexpected contribution was reported
			}
			setOK = false
			x := byPath[cp]
			kinds := strings.Join(gen.SortedKeys(missing[cp]), "+")
			add(res, seen, "enabled-dependency-absent", fmt.Sprintf("%s of an enabled %s missing; enabled by %s%s", kinds, relOr(x, decidedBy(x, why[x], in.User)), decidedBy(x, why[x], in.User), strat(in)),
				"route %s: %s contributes no %s although it is enabled (%s) | %s", rt.name, cp, kinds, why[x], input())
			break
		}
		res.Stat("rendered_sets_compared", 1)
		if !setOK {
			setMismatch = true
			continue // a wrong enabled decision changes every view; the set violation is the cause
		}

		// --- what every live chart sees
		for _, x := range insts {
			if !live[x] {
				continue
			}
			got, ok := o.probes[x.path()]
			if !ok {
				continue // reported above as missing template
			}
			exp := section(expVals, x.keyPath())
			var diffs []ref.Difference
			var n int64
			ref.Diff(exp, got, "", &diffs, &n)
			res.Stat("probe_paths_compared", n)
			res.Stat("probes_parsed", 1)
			if len(diffs) > 0 {
				df := diffs[0]
				class := fmt.Sprintf("%s sees %s %s%s", relName(x), df.Kind, whereIn(x, df.Path, on), strat(in))
				if in.Stratum != "unlisted" && nestedGlobal(df.Path) && df.Kind != "missing" {
					class = nestedGlobalClass
				}
				add(res, seen, "scope-values", class,
					"route %s: chart %s: %s | expected .Values %s | observed %s | %s", rt.name, x.path(), df, ref.J(exp), ref.J(got), input())
			}
			// independent provenance check on the private part of x's values
			skip := map[string]bool{}
			for _, c := range x.Children {
				skip[c.Name] = true
			}
			bad := ""
			leaves(got, 0, skip, true, func(s string, gdepth int) {
				if sn, ok := parseSentinel(s); ok && bad == "" {
					res.Stat("sentinel_leaves_checked", 1)
					if r := relation(x, sn, gdepth > 0); r != "" {
						if gdepth >= 4 {
							r += "#nested"
						}
						bad = fmt.Sprintf("%s|%s", r, s)
					}
				}
			})
			if bad != "" {
				p := strings.SplitN(bad, "|", 2)
				class := fmt.Sprintf("%s: %s%s", relName(x), p[0], strat(in))
				if in.Stratum != "unlisted" && strings.HasSuffix(p[0], "#nested") {
					class = nestedGlobalClass
				}
				add(res, seen, "isolation-provenance", class, "route %s: chart %s prints leaf %q | observed .Values %s | %s", rt.name, x.path(), p[1], ref.J(got), input())
			}
		}
	}

	// --- real install against the simulated API server: the CRDs that reach the cluster
	// (Install pre-installs crds/ before rendering; the dry-run routes above never send anything)
	sampled := in.Stratum == "tree" || in.Stratum == "unlisted" || idx%8 == 0
	if first != nil && first.err == nil && !setMismatch && nDisabled > 0 && sampled {
		w := env.NewWorld("memory", "ns1")
		var r env.OpResult
		if !core.Guard(res, "real install | "+input(), func() {
			r = w.Exec("inst", "r", env.Op{Kind: "install", Vals: ref.CanonMap(in.User)}, files.Build())
		}) {
			res.Evals++
			res.Stat("real_installs_on_simulated_cluster", 1)
			posted := map[string]bool{}
			for _, e := range w.Sim.Log() {
				if e.Phase == "done" && e.Method == "POST" && e.Kind == "CustomResourceDefinition" {
					posted[e.Name] = true // the sim logs the name from the POSTed body
				}
			}
			res.Stat("crd_posts_observed", int64(len(posted)))
			liveDef, deadInst := map[string]*inst{}, map[string]*inst{}
			for _, x := range insts {
				if live[x] {
					liveDef[x.Def.Name] = x
				}
			}
			for _, x := range insts {
				if !live[x] && liveDef[x.Def.Name] == nil && deadInst[x.Def.Name] == nil {
					deadInst[x.Def.Name] = x
				}
			}
			if verbose {
				fmt.Printf("  route real-install: err=%v CRDs POSTed=%v\n", r.Err, gen.SortedKeys(posted))
			}
			for _, d := range gen.SortedKeys(deadInst) {
				res.Stat("crds_of_disabled_charts_checked", 1)
				if posted["things."+d+".example.com"] {
					x := deadInst[d]
					da := disabledAncestor(x, on)
					add(res, seen, "disabled-dependency-contributes", fmt.Sprintf("CRD of a disabled %s is sent to the cluster by a real install; disabled by %s%s", relOr(x, decidedBy(da, why[da], in.User)), decidedBy(da, why[da], in.User), strat(in)),
						"POST customresourcedefinitions things.%s.example.com although %s is disabled (%s); install err=%v | %s", d, da.path(), why[da], r.Err, input())
					break
				}
			}
			for _, d := range gen.SortedKeys(liveDef) {
				if !posted["things."+d+".example.com"] {
					x := liveDef[d]
					add(res, seen, "enabled-dependency-absent", fmt.Sprintf("CRD of an enabled %s is not sent to the cluster by a real install%s", relName(x), strat(in)),
						"no POST of things.%s.example.com although %s is enabled; install err=%v | %s", d, x.path(), r.Err, input())
					break
				}
				res.Stat("crds_of_enabled_charts_seen_posted", 1)
			}
		}
	}

	// --- isolation re-render: perturb only one sibling's section
	if first != nil && first.err == nil && !strings.HasPrefix(in.Stratum, "table") {
		var cands []*inst
		for _, x := range insts {
			if x.Parent != nil && live[x] {
				cands = append(cands, x)
			}
		}
		if len(cands) > 0 {
			y := cands[idx%len(cands)]
			user2 := perturb(in.User, y)
			var o2 *observed
			if !core.Guard(res, "isolation re-render | "+input(), func() { o2 = renderEngine(files, user2) }) && o2.err == nil {
				res.Evals++
				res.Stat("isolation_rerenders", 1)
				for _, x := range insts {
					if !live[x] || inSubtree(x, y) {
						continue
					}
					a, b := first.probes[x.path()], o2.probes[x.path()]
					if a == nil || b == nil {
						continue
					}
					a, b = ref.CanonMap(a), ref.CanonMap(b)
					rel := "sibling-side chart"
					if inSubtree(y, x) { // x is an ancestor of y: it legitimately sees y's section
						k := y.keyPath()[len(x.keyPath())]
						delete(a, k)
						delete(b, k)
						rel = "ancestor (outside the perturbed section)"
					}
					res.Stat("isolation_probe_pairs_compared", 1)
					if !ref.Equal(a, b) {
						var diffs []ref.Difference
						var n int64
						ref.Diff(a, b, "", &diffs, &n)
						d := "?"
						if len(diffs) > 0 {
							d = diffs[0].String()
						}
						under := "private values"
						if len(diffs) > 0 && (diffs[0].Path == "global" || strings.HasPrefix(diffs[0].Path, "global.")) {
							under = "global"
						}
						class := fmt.Sprintf("changing only the section of a %s changes the %s of a %s%s", relName(y), under, rel, strat(in))
						if in.Stratum != "unlisted" && len(diffs) > 0 && nestedGlobal(diffs[0].Path) {
							class = nestedGlobalClass
						}
						add(res, seen, "isolation-rerender", class,
							"perturbed section %s; chart %s changed: %s | before %s | after %s | %s", strings.Join(y.keyPath(), "."), x.path(), d, ref.J(a), ref.J(b), input())
					}
				}
			}
		}
	}

	// --- shape key
	var shape []string
	for _, x := range insts {
		if x.Parent == nil {
			continue
		}
		s := relName(x)
		if x.Dep != nil {
			if len(x.Dep.Cond) > 0 {
				s += fmt.Sprintf(" cond%d", len(x.Dep.Cond))
			}
			if len(x.Dep.Tags) > 0 {
				s += fmt.Sprintf(" tags%d", len(x.Dep.Tags))
			}
		}
		s += ":" + firstWords(why[x], 1)
		if !on[x] {
			s += "=off"
		}
		shape = append(shape, s)
	}
	sort.Strings(shape)
	if strings.HasPrefix(in.Stratum, "table") {
		res.Stat("truth_table_rows_"+in.Stratum, int64(len(insts)-1-map[string]int{"table2": 1, "table3": 2}[in.Stratum]))
		for _, x := range insts {
			if x.Dep != nil && x.depth() == map[string]int{"table1": 2, "table2": 3, "table3": 4}[in.Stratum] {
				res.Key("%s|%s|%s|on=%v", in.Stratum, condShape(x.Dep), firstWords(why[x], 1), on[x])
			}
		}
	} else if nDisabled > 0 || nAliased > 0 || len(insts) > 2 {
		res.Key("%s|%s", in.Stratum, strings.Join(shape, ";"))
	}
	for _, x := range insts {
		if x.depth() >= 4 {
			res.Stat("instances_four_charts_deep", 1)
			if !live[x] {
				res.Stat("disabled_instances_four_charts_deep", 1)
			}
		}
	}
	res.Stat("trees", 1)
	res.Stat("disabled_instances", int64(nDisabled))
	res.Stat("aliased_instances", int64(nAliased))
}

// add records a violation once per tree (both routes usually show the same thing).
func add(res *core.Result, seen map[string]bool, clause, class, format string, a ...any) {
	if i := strings.Index(class, " [unlisted-subchart stratum"); i >= 0 {
		// separate stratum: one signature per oracle clause and sub-stratum
		class = strings.TrimSpace(class[i:])
	}
	if seen[clause+"|"+class] {
		return
	}
	seen[clause+"|"+class] = true
	res.Add(clause, class, format, a...)
}

// decidedBy names what decided and, for conditions, whether the deciding value comes from a
// values.yaml that sits below an aliased chart two or more levels under the root (helm merges those
// under the chart's ORIGINAL name when it evaluates conditions: known defect D2). Everything else is
// plainly "the rule".
func decidedBy(x *inst, why string, user map[string]any) string {
	if !strings.HasPrefix(why, "condition ") {
		return "the rule"
	}
	p := strings.SplitN(strings.TrimPrefix(why, "condition "), "=", 2)[0]
	par := x.Parent
	abs := strings.Join(append(append([]string{}, par.keyPath()...), p), ".")
	if _, ok := lookup(ref.CanonMap(user), abs); ok {
		return "the rule"
	}
	// aliasedBelow: some chart at depth >= 3 on the chain root..s is aliased
	aliasedBelow := func(s *inst) bool {
		for a := s; a != nil; a = a.Parent {
			if a.depth() >= 3 && a.Dep != nil && a.Dep.Alias != "" {
				return true
			}
		}
		return false
	}
	// sources in precedence order: the root's values.yaml first, the parent's last, then the dependency's own
	var chain []*inst
	for a := par; a != nil; a = a.Parent {
		chain = append([]*inst{a}, chain...)
	}
	for _, a := range chain {
		rel := strings.TrimPrefix(strings.TrimPrefix(abs, strings.Join(a.keyPath(), ".")), ".")
		if _, ok := lookup(ref.CanonMap(a.Def.Values), rel); ok {
			if aliasedBelow(a) {
				return "a condition value from the values.yaml of a chart at or below an aliased sub-subchart"
			}
			return "the rule"
		}
	}
	if strings.HasPrefix(p, x.Name+".") && aliasedBelow(x) {
		return "a condition value found only in the dependency's own values.yaml"
	}
	return "the rule"
}

// nestedGlobalClass: one recognised cause shape (fixed in helm: coalesceGlobals now deep-copies) — a
// value that sits inside a table nested two levels deep in `global` shows up in a chart that is not
// below the chart/section that set it. It is only a class name; it is not a known finding.
const nestedGlobalClass = "a value inside a table nested two levels deep in global (global.<t1>.<t2>.<key>) is visible outside the subtree that set it (leak to parent / siblings)"

// nestedGlobal: the path runs through `global` and at least three more keys.
func nestedGlobal(path string) bool {
	parts := strings.Split(path, ".")
	for i, p := range parts {
		if p == "global" && len(parts)-i-1 >= 3 {
			return true
		}
	}
	return false
}

// relOr: the tree relation of x, unless the deciding value has the D2 shape (then the relation is
// irrelevant to the cause and left out, so that the defect has few signatures).
func relOr(x *inst, decided string) string {
	if decided != "the rule" {
		return "dependency two or more levels below the root"
	}
	return relName(x)
}

func btoi(b bool) int {
	if b {
		return 1
	}
	return 0
}

func condShape(d *dep) string {
	var p []string
	for _, c := range d.Cond {
		if strings.HasPrefix(c, "feat.") {
			p = append(p, "parentkey")
		} else {
			p = append(p, "depsection")
		}
	}
	a := ""
	if d.Alias != "" {
		a = " aliased"
	}
	return fmt.Sprintf("cond[%s] tags%d%s", strings.Join(p, ","), len(d.Tags), a)
}

func disabledAncestor(x *inst, on map[*inst]bool) *inst {
	top := x
	for a := x; a != nil; a = a.Parent {
		if !on[a] {
			top = a
		}
	}
	return top
}

func inSubtree(x, root *inst) bool {
	for a := x; a != nil; a = a.Parent {
		if a == root {
			return true
		}
	}
	return false
}

// whereIn names the region of x's values a differing path lies in.
func whereIn(x *inst, path string, on map[*inst]bool) string {
	first := strings.SplitN(path, ".", 2)[0]
	first = strings.Trim(first, `"`)
	if first == "global" {
		return "in its global"
	}
	for _, c := range x.Children {
		if c.Name == first {
			st := "enabled"
			if !on[c] {
				st = "disabled"
			}
			rest := ""
			if strings.HasPrefix(path, first+".global") {
				rest = " global"
			}
			return fmt.Sprintf("in the%s section of its %s dependency", rest, st)
		}
	}
	return "in its private values"
}

func firstWords(s string, n int) string {
	f := strings.Fields(s)
	if len(f) > n {
		f = f[:n]
	}
	return strings.Join(f, " ")
}
