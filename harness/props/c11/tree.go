package c11

import (
	"encoding/json"
	"fmt"
	"sort"
	"strings"

	"sigs.k8s.io/yaml"

	"helm.sh/helm/v4/verifh/gen"
	"helm.sh/helm/v4/verifh/ref"
)

// chartDef is one chart directory: it may be instantiated several times (aliases).
type chartDef struct {
	Name     string
	Values   map[string]any // values.yaml
	Deps     []*dep         // listed in Chart.yaml
	Unlisted []*chartDef    // present in charts/ but not listed
}

// dep is one entry of Chart.yaml `dependencies:`.
type dep struct {
	Def   *chartDef
	Alias string
	Cond  []string // condition paths, evaluated in the parent's values
	Tags  []string
}

func (d *dep) name() string {
	if d.Alias != "" {
		return d.Alias
	}
	return d.Def.Name
}

// inst is one chart instance of the tree as the user sees it.
type inst struct {
	Def      *chartDef
	Dep      *dep // nil for the root and for unlisted subcharts
	Name     string
	Parent   *inst
	Children []*inst
	Unlisted bool
}

func (x *inst) path() string { // template path prefix, e.g. top/charts/a1/charts/g
	if x.Parent == nil {
		return x.Name
	}
	return x.Parent.path() + "/charts/" + x.Name
}

func (x *inst) keyPath() []string { // values path from the root, e.g. [a1 g]
	if x.Parent == nil {
		return nil
	}
	return append(x.Parent.keyPath(), x.Name)
}

func (x *inst) depth() int {
	if x.Parent == nil {
		return 1
	}
	return x.Parent.depth() + 1
}

func instantiate(def *chartDef, parent *inst, d *dep, name string, unlisted bool) *inst {
	x := &inst{Def: def, Dep: d, Name: name, Parent: parent, Unlisted: unlisted}
	for _, dd := range def.Deps {
		x.Children = append(x.Children, instantiate(dd.Def, x, dd, dd.name(), false))
	}
	for _, u := range def.Unlisted {
		x.Children = append(x.Children, instantiate(u, x, nil, u.Name, true))
	}
	return x
}

func (x *inst) walk(f func(*inst)) {
	f(x)
	for _, c := range x.Children {
		c.walk(f)
	}
}

const probeTpl = `apiVersion: v1
kind: ConfigMap
metadata:
  name: probe-{{ .Chart.Name }}
data:
  values: |
{{ toYaml .Values | indent 4 }}
`

const hookTpl = `apiVersion: v1
kind: ConfigMap
metadata:
  name: hook-{{ .Chart.Name }}
  annotations:
    "helm.sh/hook": pre-install
data:
  k: v
`

func crdYAML(name string) string {
	return fmt.Sprintf("apiVersion: apiextensions.k8s.io/v1\nkind: CustomResourceDefinition\nmetadata:\n  name: things.%s.example.com\nspec:\n  group: %s.example.com\n  names:\n    kind: Thing\n    plural: things\n  scope: Namespaced\n  versions: []\n", name, name)
}

// schema: the only constraint is that `forbidden`, if present, is an integer.
const schemaJSON = `{"$schema":"http://json-schema.org/draft-07/schema#","type":"object","properties":{"forbidden":{"type":"integer"}}}`

func (d *chartDef) files(prefix string, out gen.Files) {
	var deps strings.Builder
	if len(d.Deps) > 0 {
		deps.WriteString("dependencies:\n")
		for _, dd := range d.Deps {
			fmt.Fprintf(&deps, "- name: %s\n  version: 0.1.0\n  repository: \"\"\n", dd.Def.Name)
			if dd.Alias != "" {
				fmt.Fprintf(&deps, "  alias: %s\n", dd.Alias)
			}
			if len(dd.Cond) > 0 {
				fmt.Fprintf(&deps, "  condition: %q\n", strings.Join(dd.Cond, ","))
			}
			if len(dd.Tags) > 0 {
				b, _ := json.Marshal(dd.Tags)
				fmt.Fprintf(&deps, "  tags: %s\n", b)
			}
		}
	}
	out[prefix+"Chart.yaml"] = fmt.Sprintf("apiVersion: v2\nname: %s\nversion: 0.1.0\n%s", d.Name, deps.String())
	y, err := yaml.Marshal(d.Values)
	if err != nil {
		panic(err)
	}
	out[prefix+"values.yaml"] = string(y)
	out[prefix+"values.schema.json"] = schemaJSON
	out[prefix+"templates/probe.yaml"] = probeTpl
	out[prefix+"templates/hook.yaml"] = hookTpl
	out[prefix+"crds/crd.yaml"] = crdYAML(d.Name)
	seen := map[*chartDef]bool{}
	for _, dd := range d.Deps {
		if !seen[dd.Def] {
			seen[dd.Def] = true
			dd.Def.files(prefix+"charts/"+dd.Def.Name+"/", out)
		}
	}
	for _, u := range d.Unlisted {
		u.files(prefix+"charts/"+u.Name+"/", out)
	}
}

// ---------------------------------------------------------------- reference

func childNames(x *inst, only map[*inst]bool) map[string]bool {
	m := map[string]bool{}
	for _, c := range x.Children {
		if only == nil || only[c] {
			m[c.Name] = true
		}
	}
	return m
}

// scope computes what chart x sees, given the section handed down by its parent (user values at
// the root; the section already carries the ancestors' globals). Only children in `on` (nil = all)
// take part: their defaults are merged into the parent's view of their section, globals flow down
// into them with the ancestor winning.
func scope(x *inst, in map[string]any, on map[*inst]bool) map[string]any {
	out := ref.ApplyDefaults(in, ref.CanonMap(x.Def.Values), childNames(x, on))
	for _, c := range x.Children {
		if on != nil && !on[c] {
			continue
		}
		sec, _ := out[c.Name].(map[string]any)
		if sec == nil {
			sec = map[string]any{}
		}
		pg, _ := out["global"].(map[string]any)
		cg, _ := sec["global"].(map[string]any)
		if cg == nil {
			cg = map[string]any{}
		}
		if pg == nil {
			pg = map[string]any{}
		}
		sec["global"] = ref.MergeKeep(pg, cg) // top-down, the ancestor's setting wins
		out[c.Name] = scope(c, sec, on)
	}
	return out
}

func lookup(m map[string]any, path string) (any, bool) {
	parts := strings.Split(path, ".")
	var cur any = m
	for _, p := range parts {
		mm, ok := cur.(map[string]any)
		if !ok {
			return nil, false
		}
		cur, ok = mm[p]
		if !ok {
			return nil, false
		}
	}
	return cur, true
}

func section(m map[string]any, keys []string) map[string]any {
	cur := m
	for _, k := range keys {
		next, _ := cur[k].(map[string]any)
		if next == nil {
			return map[string]any{}
		}
		cur = next
	}
	return cur
}

// enabledRule is the property's sentence: the first condition path that resolves to a boolean in the
// parent's effective values decides; otherwise disabled exactly when some tag is false and none true.
func enabledRule(d *dep, parentVals map[string]any, tags map[string]any) (on bool, why string) {
	for _, p := range d.Cond {
		if v, ok := lookup(parentVals, p); ok {
			if b, isBool := v.(bool); isBool {
				return b, fmt.Sprintf("condition %s=%v", p, b)
			}
		}
	}
	hasTrue, hasFalse := false, false
	for _, t := range d.Tags {
		if b, ok := tags[t].(bool); ok {
			if b {
				hasTrue = true
			} else {
				hasFalse = true
			}
		}
	}
	if hasFalse && !hasTrue {
		return false, "tags"
	}
	if hasTrue {
		return true, "tags"
	}
	return true, "default"
}

// decide evaluates the enabled rule top-down. Conditions are looked up in the parent's effective
// values computed with all of its dependencies present (a condition path usually points into the
// dependency's own section, where the dependency's defaults count).
func decide(root *inst, user map[string]any) (on map[*inst]bool, why map[*inst]string) {
	on, why = map[*inst]bool{root: true}, map[*inst]string{}
	all := scope(root, ref.CanonMap(user), nil)
	tags, _ := all["tags"].(map[string]any)
	var rec func(x *inst)
	rec = func(x *inst) {
		pv := section(all, x.keyPath())
		for _, c := range x.Children {
			if c.Dep == nil {
				on[c], why[c] = true, "unlisted"
			} else {
				on[c], why[c] = enabledRule(c.Dep, pv, tags)
			}
			if on[c] {
				rec(c)
			}
		}
	}
	rec(root)
	return
}

// ---------------------------------------------------------------- sentinels

// Sentinel leaves: "S|<kind>|<where>|<n>". kind/where identify the source of the leaf:
//
//	own|<def>            private default of chart <def> (non-global, not inside a child section)
//	glob|<def>           default global of chart <def>
//	sec|<def>|<rel>      <def>'s values.yaml section for the descendant at relative key path <rel>
//	gsec|<def>|<rel>     a `global` table inside such a section
//	user|<abs>           user value in the section of the instance at absolute key path <abs> ("" = root)
//	uglob|<abs>          user global inside that section
type sentinel struct{ kind, def, at string }

func parseSentinel(s string) (sentinel, bool) {
	if !strings.HasPrefix(s, "S|") {
		return sentinel{}, false
	}
	p := strings.Split(s, "|")
	switch {
	case len(p) == 4 && (p[1] == "own" || p[1] == "glob"):
		return sentinel{kind: p[1], def: p[2]}, true
	case len(p) == 5 && (p[1] == "sec" || p[1] == "gsec"):
		return sentinel{kind: p[1], def: p[2], at: p[3]}, true
	case len(p) == 4 && (p[1] == "user" || p[1] == "uglob"):
		return sentinel{kind: p[1], at: p[2]}, true
	}
	return sentinel{}, false
}

// relation names the tree relation between the chart that owns a leaf and the chart x that printed
// it; "" means the leaf is allowed to be visible in x's private values (outside its child sections).
func relation(x *inst, s sentinel, underGlobal bool) string {
	// ancestors-or-self chain of x
	chain := []*inst{}
	for a := x; a != nil; a = a.Parent {
		chain = append([]*inst{a}, chain...)
	}
	abs := strings.Join(x.keyPath(), ".")
	isAncestorPath := func(p string) bool { // p is the key path of an ancestor-or-self of x
		return p == abs || p == "" || strings.HasPrefix(abs, p+".")
	}
	switch s.kind {
	case "own":
		if s.def == x.Def.Name {
			if underGlobal {
				return "own private default under global"
			}
			return ""
		}
	case "glob":
		for _, a := range chain {
			if a.Def.Name == s.def && underGlobal {
				return ""
			}
		}
	case "sec", "gsec":
		for _, a := range chain[:len(chain)-1] {
			if a.Def.Name != s.def {
				continue
			}
			rel := strings.TrimPrefix(strings.TrimPrefix(abs, strings.Join(a.keyPath(), ".")), ".")
			if s.kind == "sec" && rel == s.at && !underGlobal {
				return ""
			}
			// a global table inside an ancestor's section for a chart on the way to x flows down to x
			if s.kind == "gsec" && underGlobal && (rel == s.at || strings.HasPrefix(rel, s.at+".")) {
				return ""
			}
		}
	case "user":
		if s.at == abs && !underGlobal {
			return ""
		}
	case "uglob":
		if underGlobal && isAncestorPath(s.at) {
			return ""
		}
	}
	// name the relation of the owner
	owner := s.def
	if owner == "" {
		owner = "section " + s.at
	}
	rel := "unrelated chart"
	switch {
	case s.kind == "user" || s.kind == "uglob":
		switch {
		case isAncestorPath(s.at):
			rel = "ancestor's user section"
		case strings.HasPrefix(s.at, abs+".") || abs == "":
			rel = "descendant's user section"
		default:
			rel = "sibling-side user section"
		}
	default:
		isAnc, isDesc := false, false
		for _, a := range chain[:len(chain)-1] {
			if a.Def.Name == s.def {
				isAnc = true
			}
		}
		x.walk(func(d *inst) {
			if d != x && d.Def.Name == s.def {
				isDesc = true
			}
		})
		switch {
		case s.def == x.Def.Name:
			rel = "own chart"
		case isAnc:
			rel = "ancestor"
		case isDesc:
			rel = "descendant"
		default:
			rel = "sibling-side chart"
		}
	}
	where := "private values"
	if underGlobal {
		where = "global"
	}
	return fmt.Sprintf("%s leaf of %s visible in %s", s.kind, rel, where)
}

// leaves lists the string leaves of a tree; gdepth is 0 outside top-level `global`, 1 for a direct
// key of global, >= 2 inside a table nested in global.
func leaves(v any, gdepth int, skip map[string]bool, top bool, f func(s string, gdepth int)) {
	switch t := v.(type) {
	case map[string]any:
		ks := make([]string, 0, len(t))
		for k := range t {
			ks = append(ks, k)
		}
		sort.Strings(ks)
		for _, k := range ks {
			if top && skip[k] {
				continue
			}
			d := gdepth
			if d > 0 || (top && k == "global") {
				d++
			}
			leaves(t[k], d, nil, false, f)
		}
	case []any:
		for _, e := range t {
			leaves(e, gdepth, nil, false, f)
		}
	case string:
		f(t, gdepth)
	}
}
