package c11

import (
	"fmt"
	"sort"
	"strings"

	"helm.sh/helm/v4/verifh/core"
	"helm.sh/helm/v4/verifh/gen"
	"helm.sh/helm/v4/verifh/ref"
)

// Sibling-defaults isolation (exhaustive small table).
//
// top -> A, B (two siblings); B has a dependency `lf` that is tagged `x` and/or has the condition
// `lf.enabled`. A carries, at the TOP LEVEL of its own values.yaml (and/or in its section of the
// parent's values.yaml / the user values), a `tags:` table mentioning x and/or a key named like B
// whose content looks like B's condition path. None of that is global and none of it is addressed
// to B, so it must not change whether B's dependency is rendered nor what anything outside A sees.
//
// Only isolation is asserted: the tree is rendered with and without A's tables and everything
// outside A's subtree must be identical. What a chart's own top-level tags table does to its OWN
// dependencies is not judged (don't-care zone), nor is the enabled state of lf as such.
const nSibRows = 3 * 4 * 2 * 3 * 3 * 4

type sibSpec struct {
	what    int // 0 tags table, 1 key named like the cousin's condition path, 2 both
	where   int // 0 A's values.yaml, 1 top's section for A, 2 user section for A, 3 all three
	order   int // 0 A listed before B, 1 after
	cousin  int // 0 lf tagged x, 1 lf has condition lf.enabled, 2 both
	rootTag int // 0 x set nowhere else, 1 top's values.yaml tags.x=true, 2 user tags.x=true
	aAlias  bool
	bAlias  bool
}

func decodeSib(row int) sibSpec {
	var s sibSpec
	s.what, row = row%3, row/3
	s.where, row = row%4, row/4
	s.order, row = row%2, row/2
	s.cousin, row = row%3, row/3
	s.rootTag, row = row%3, row/3
	s.aAlias, s.bAlias = row%2 == 1, (row/2)%2 == 1
	return s
}

func (s sibSpec) String() string {
	return fmt.Sprintf("what=%s where=%s order=%s cousin=%s x-elsewhere=%s aliasA=%v aliasB=%v",
		[]string{"tags-table", "key-like-cousin-condition-path", "both"}[s.what],
		[]string{"A's values.yaml", "top's section for A", "user section for A", "all"}[s.where],
		[]string{"A-before-B", "A-after-B"}[s.order],
		[]string{"tagged", "condition", "tagged+condition"}[s.cousin],
		[]string{"nowhere", "top values.yaml", "user"}[s.rootTag], s.aAlias, s.bAlias)
}

// sibInput builds the tree; withTables=false leaves out A's tables (the comparison render).
func sibInput(row int, withTables bool) (treeInput, string) {
	sp := decodeSib(row)
	sg := &sgen{}
	lf := &chartDef{Name: "lf", Values: map[string]any{"p1": sg.own("lf")}}
	a := &chartDef{Name: "sa", Values: map[string]any{"p1": sg.own("sa")}}
	b := &chartDef{Name: "sb", Values: map[string]any{"p1": sg.own("sb")}}
	alf := &chartDef{Name: "la", Values: map[string]any{"p1": sg.own("la")}} // A's own dependency (not judged)
	a.Deps = []*dep{{Def: alf, Tags: []string{"x"}}}
	ld := &dep{Def: lf}
	if sp.cousin != 1 {
		ld.Tags = []string{"x"}
	}
	if sp.cousin != 0 {
		ld.Cond = []string{"lf.enabled"}
	}
	b.Deps = []*dep{ld}
	da, db := &dep{Def: a}, &dep{Def: b}
	if sp.aAlias {
		da.Alias = "saal"
	}
	if sp.bAlias {
		db.Alias = "sbal"
	}
	root := &chartDef{Name: "top", Values: map[string]any{"p1": sg.own("top")}}
	if sp.order == 0 {
		root.Deps = []*dep{da, db}
	} else {
		root.Deps = []*dep{db, da}
	}
	user := map[string]any{}
	switch sp.rootTag {
	case 1:
		root.Values["tags"] = map[string]any{"x": true}
	case 2:
		user["tags"] = map[string]any{"x": true}
	}
	if withTables {
		put := func(m map[string]any) {
			if sp.what != 1 {
				m["tags"] = map[string]any{"x": false}
			}
			if sp.what != 0 {
				m[db.name()] = map[string]any{"lf": map[string]any{"enabled": false}, "p2": "from-A"}
				m["lf"] = map[string]any{"enabled": false}
			}
		}
		if sp.where == 0 || sp.where == 3 {
			put(a.Values)
		}
		if sp.where == 1 || sp.where == 3 {
			put(ensure(root.Values, da.name()))
		}
		if sp.where == 2 || sp.where == 3 {
			put(ensure(user, da.name()))
		}
	}
	return treeInput{Root: root, User: user, Stratum: "sibling-tables", Note: fmt.Sprintf("row %d: %s", row, sp)}, da.name()
}

func checkSibling(res *core.Result, row int, verbose bool) {
	with, aName := sibInput(row, true)
	without, _ := sibInput(row, false)
	sp := decodeSib(row)
	aPath := "top/charts/" + aName
	input := func() string {
		return fmt.Sprintf("input #%d: WITH A's tables: %s\nWITHOUT: %s", row, with.describe(), without.describe())
	}
	f1, f2 := gen.Files{}, gen.Files{}
	with.Root.files("", f1)
	without.Root.files("", f2)
	routes := []struct {
		name string
		f    func(gen.Files, map[string]any) *observed
	}{{"engine", renderEngine}, {"install-dry-run", renderInstall}}
	what := []string{"a top-level tags table", "a top-level key named like the cousin's condition path", "a top-level tags table and a key named like the cousin's condition path"}[sp.what]
	where := []string{"in a sibling's own values.yaml", "in the parent's section for a sibling", "in the user section for a sibling", "in a sibling's values.yaml and sections"}[sp.where]
	for _, rt := range routes {
		var o1, o2 *observed
		if core.Guard(res, rt.name+" | "+input(), func() { o1, o2 = rt.f(f1, with.User), rt.f(f2, without.User) }) {
			continue
		}
		res.Evals += 2
		if verbose {
			fmt.Printf("%s\n  route %s: with: err=%v %v\n  without: err=%v %v\n", input(), rt.name, o1.err, gen.SortedKeys(o1.templates), o2.err, gen.SortedKeys(o2.templates))
		}
		if (o1.err == nil) != (o2.err == nil) {
			res.Add("sibling-defaults-isolation", fmt.Sprintf("%s %s makes the render fail or succeed", what, where), "route %s: with: %v, without: %v | %s", rt.name, o1.err, o2.err, input())
			continue
		}
		if o1.err != nil {
			continue
		}
		outside := func(o *observed) []string {
			var ps []string
			for _, m := range []map[string]bool{o.templates, o.hooks, o.crds} {
				for p := range m {
					if !strings.HasPrefix(p, aPath+"/") {
						ps = append(ps, p)
					}
				}
			}
			sort.Strings(ps)
			return ps
		}
		s1, s2 := outside(o1), outside(o2)
		res.Stat("sibling_isolation_pairs_compared", 1)
		if strings.Join(s1, " ") != strings.Join(s2, " ") {
			res.Add("sibling-defaults-isolation", fmt.Sprintf("%s %s changes whether a cousin's dependency (%s) is rendered", what, where, []string{"tagged", "with a condition", "tagged, with a condition"}[sp.cousin]),
				"route %s: rendered outside %s WITH the tables: %v; WITHOUT: %v | %s", rt.name, aPath, s1, s2, input())
			continue
		}
		for p, v1 := range o1.probes {
			if p == aPath || strings.HasPrefix(p, aPath+"/") {
				continue
			}
			v2 := o2.probes[p]
			c1, c2 := ref.CanonMap(v1), ref.CanonMap(v2)
			if p == "top" {
				delete(c1, aName)
				delete(c2, aName)
			}
			res.Stat("sibling_isolation_probes_compared", 1)
			if !ref.Equal(c1, c2) {
				res.Add("sibling-defaults-isolation", fmt.Sprintf("%s %s changes the values a chart outside that sibling sees", what, where),
					"route %s: chart %s prints %s WITH and %s WITHOUT the tables | %s", rt.name, p, ref.J(c1), ref.J(c2), input())
				break
			}
		}
	}
	res.Key("sibling-tables|%s", sp)
	res.Stat("sibling_table_rows", 1)
}
