package c11

import (
	"fmt"
	"math/rand"
	"strings"

	"helm.sh/helm/v4/verifh/gen"
	"helm.sh/helm/v4/verifh/ref"
)

// treeInput is one generated dependency tree with user values.
type treeInput struct {
	Root    *chartDef
	User    map[string]any
	Stratum string // tree | unlisted | table1 | table2 | globalflip
	// SchemaBad: key path of the instance whose section carries a schema-violating value ("" none)
	SchemaBad []string
	Note      string
}

type sgen struct{ n int }

func (s *sgen) own(def string) string  { s.n++; return fmt.Sprintf("S|own|%s|%d", def, s.n) }
func (s *sgen) glob(def string) string { s.n++; return fmt.Sprintf("S|glob|%s|%d", def, s.n) }
func (s *sgen) sec(def, rel string, global bool) string {
	s.n++
	k := "sec"
	if global {
		k = "gsec"
	}
	return fmt.Sprintf("S|%s|%s|%s|%d", k, def, rel, s.n)
}
func (s *sgen) user(abs string, global bool) string {
	s.n++
	k := "user"
	if global {
		k = "uglob"
	}
	return fmt.Sprintf("S|%s|%s|%d", k, abs, s.n)
}

// private generates non-global private keys with sentinel leaves.
func private(rng *rand.Rand, leaf func() string, density int) map[string]any {
	out := map[string]any{}
	for _, k := range []string{"p1", "p2", "p3"} {
		if rng.Intn(100) < density {
			out[k] = leaf()
		}
	}
	if rng.Intn(100) < density {
		pm := map[string]any{}
		for _, k := range []string{"q1", "q2"} {
			if rng.Intn(100) < 70 {
				pm[k] = leaf()
			}
		}
		out["pm"] = pm
	}
	if rng.Intn(100) < density/3 {
		out["pl"] = []any{leaf(), leaf()}
	}
	return out
}

// globals generates a (type-consistent) global table: gk1, gk2 scalars; gm.{x,y}; gm.deep.{z,w}.
func globals(rng *rand.Rand, leaf func() string, density int) map[string]any {
	out := map[string]any{}
	for _, k := range []string{"gk1", "gk2"} {
		if rng.Intn(100) < density {
			out[k] = leaf()
		}
	}
	if rng.Intn(100) < density {
		gm := map[string]any{}
		for _, k := range []string{"x", "y"} {
			if rng.Intn(100) < 60 {
				gm[k] = leaf()
			}
		}
		if rng.Intn(100) < 60 {
			deep := map[string]any{}
			for _, k := range []string{"z", "w"} {
				if rng.Intn(100) < 65 {
					deep[k] = leaf()
				}
			}
			gm["deep"] = deep
		}
		out["gm"] = gm
	}
	return out
}

func flagVal(rng *rand.Rand) any {
	switch rng.Intn(8) {
	case 0:
		return "true" // non-bool
	case 1, 2, 3:
		return true
	}
	return false
}

// defSection builds def's values.yaml section for dependency d (relative key path rel).
func defSection(rng *rand.Rand, s *sgen, def string, d *dep, rel string) map[string]any {
	sec := private(rng, func() string { return s.sec(def, rel, false) }, 40)
	if rng.Intn(100) < 35 {
		sec["global"] = globals(rng, func() string { return s.sec(def, rel, true) }, 45)
	}
	for _, c := range d.Cond {
		if c == d.name()+".enabled" && rng.Intn(100) < 40 {
			sec["enabled"] = flagVal(rng)
		}
	}
	for _, dd := range d.Def.Deps {
		if rng.Intn(100) < 35 {
			sec[dd.name()] = defSection(rng, s, def, dd, rel+"."+dd.name())
		}
	}
	return sec
}

func fillDef(rng *rand.Rand, s *sgen, d *chartDef) {
	d.Values = private(rng, func() string { return s.own(d.Name) }, 60)
	if rng.Intn(100) < 55 {
		d.Values["global"] = globals(rng, func() string { return s.glob(d.Name) }, 55)
	}
	if rng.Intn(100) < 30 {
		d.Values["enabled"] = flagVal(rng) // own default of the usual condition path <name>.enabled
	}
	feat := map[string]any{}
	for _, dd := range d.Deps {
		if rng.Intn(100) < 60 {
			d.Values[dd.name()] = defSection(rng, s, d.Name, dd, dd.name())
		}
		for _, c := range dd.Cond {
			if strings.HasPrefix(c, "feat.") && rng.Intn(100) < 50 {
				feat[strings.TrimPrefix(c, "feat.")] = flagVal(rng)
			}
		}
	}
	if len(feat) > 0 {
		d.Values["feat"] = feat
	}
}

func userSection(rng *rand.Rand, s *sgen, x *inst) map[string]any {
	abs := strings.Join(x.keyPath(), ".")
	sec := private(rng, func() string { return s.user(abs, false) }, 35)
	if rng.Intn(100) < 35 {
		sec["global"] = globals(rng, func() string { return s.user(abs, true) }, 45)
	}
	feat := map[string]any{}
	for _, c := range x.Children {
		if rng.Intn(100) < 55 {
			sec[c.Name] = userSection(rng, s, c)
		}
		if c.Dep != nil {
			for _, cp := range c.Dep.Cond {
				if strings.HasPrefix(cp, "feat.") && rng.Intn(100) < 40 {
					feat[strings.TrimPrefix(cp, "feat.")] = flagVal(rng)
				}
			}
		}
	}
	if len(feat) > 0 {
		sec["feat"] = feat
	}
	if x.Dep != nil {
		for _, cp := range x.Dep.Cond {
			if cp == x.Name+".enabled" && rng.Intn(100) < 45 {
				sec["enabled"] = flagVal(rng)
			}
		}
	}
	return sec
}

func condFor(rng *rand.Rand, name string) []string {
	switch rng.Intn(6) {
	case 0, 1:
		return []string{name + ".enabled"}
	case 2:
		return []string{"feat." + name}
	case 3:
		return []string{name + ".enabled", "feat." + name}
	case 4:
		return []string{"feat." + name, name + ".enabled"}
	}
	return nil
}

var tagPool = []string{"ta", "tb", "tc"}

func genTreeInput(rng *rand.Rand, stratum string) treeInput {
	s := &sgen{}
	root := &chartDef{Name: "top"}
	childDefs := []*chartDef{}
	gcDefs := []*chartDef{}
	newDef := func(pool *[]*chartDef, prefix string, reusePct int) (*chartDef, bool) {
		if len(*pool) > 0 && rng.Intn(100) < reusePct {
			return gen.Pick(rng, *pool), true
		}
		d := &chartDef{Name: fmt.Sprintf("%s%d", prefix, len(*pool)+1)}
		*pool = append(*pool, d)
		return d, false
	}
	addDeps := func(parent *chartDef, n int, pool *[]*chartDef, prefix, aliasPrefix string, tags bool) {
		used := map[string]bool{}
		for i := 0; i < n; i++ {
			d, reused := newDef(pool, prefix, 30)
			dd := &dep{Def: d}
			if reused && used[d.Name] || rng.Intn(100) < 35 {
				dd.Alias = fmt.Sprintf("%s%d", aliasPrefix, i+1)
			}
			if !tags && reused && used[d.Name] {
				// below the root the same chart is never used both plain and aliased by one parent
				for _, prev := range parent.Deps {
					if prev.Def == d && prev.Alias == "" {
						prev.Alias = fmt.Sprintf("%s%d", aliasPrefix, 9)
						prev.Cond = condFor(rng, prev.name())
					}
				}
			}
			if used[dd.name()] {
				dd.Alias = fmt.Sprintf("%s%d", aliasPrefix, i+1)
			}
			used[dd.name()] = true
			used[d.Name] = true
			dd.Cond = condFor(rng, dd.name())
			if tags && rng.Intn(100) < 40 {
				dd.Tags = []string{gen.Pick(rng, tagPool)}
				if rng.Intn(2) == 0 {
					t2 := gen.Pick(rng, tagPool)
					if t2 != dd.Tags[0] {
						dd.Tags = append(dd.Tags, t2)
					}
				}
			}
			parent.Deps = append(parent.Deps, dd)
		}
	}
	addDeps(root, 1+rng.Intn(3), &childDefs, "c", "al", true)
	for _, cd := range childDefs {
		addDeps(cd, rng.Intn(3), &gcDefs, "g", "gal", false)
	}
	// three levels of subcharts below the root (four charts deep) in about a third of the trees
	ggDefs := []*chartDef{}
	if rng.Intn(3) == 0 {
		for _, gd := range gcDefs {
			if rng.Intn(100) < 60 {
				addDeps(gd, 1, &ggDefs, "h", "hal", false)
			}
		}
	}
	note := ""
	if stratum == "unlisted" {
		// unlisted subcharts: present in charts/ but not in Chart.yaml
		switch rng.Intn(3) {
		case 0: // root lists nothing at all; its unlisted child has conditional dependencies
			for _, dd := range root.Deps {
				root.Unlisted = append(root.Unlisted, dd.Def)
			}
			seen := map[*chartDef]bool{}
			var ul []*chartDef
			for _, d := range root.Unlisted {
				if !seen[d] {
					seen[d] = true
					ul = append(ul, d)
				}
			}
			root.Unlisted, root.Deps = ul, nil
			note = "the root chart lists no dependencies, its unlisted subcharts have dependencies of their own"
		default: // an unlisted grandchild below a (possibly twice-aliased) child
			cd := gen.Pick(rng, childDefs)
			cd.Unlisted = append(cd.Unlisted, &chartDef{Name: "u1"})
			note = "an unlisted subchart below a child chart that may be used twice"
		}
	}
	done := map[*chartDef]bool{}
	var fill func(d *chartDef)
	fill = func(d *chartDef) {
		if done[d] {
			return
		}
		done[d] = true
		for _, dd := range d.Deps {
			fill(dd.Def)
		}
		for _, u := range d.Unlisted {
			fill(u)
		}
		fillDef(rng, s, d)
	}
	fill(root)
	if rng.Intn(100) < 50 {
		tg := map[string]any{}
		for _, t := range tagPool {
			if rng.Intn(100) < 40 {
				tg[t] = flagVal(rng)
			}
		}
		root.Values["tags"] = tg
	}
	tree := instantiate(root, nil, nil, root.Name, false)
	user := userSection(rng, s, tree)
	if rng.Intn(100) < 50 {
		tg := map[string]any{}
		for _, t := range tagPool {
			if rng.Intn(100) < 40 {
				tg[t] = flagVal(rng)
			}
		}
		user["tags"] = tg
	}
	in := treeInput{Root: root, User: user, Stratum: stratum, Note: note}
	if rng.Intn(100) < 12 {
		var cands []*inst
		tree.walk(func(x *inst) {
			if x.Parent != nil {
				cands = append(cands, x)
			}
		})
		if len(cands) > 0 {
			z := gen.Pick(rng, cands)
			in.SchemaBad = z.keyPath()
			sec := in.User
			for _, k := range in.SchemaBad {
				next, _ := sec[k].(map[string]any)
				if next == nil {
					next = map[string]any{}
					sec[k] = next
				}
				sec = next
			}
			sec["forbidden"] = "not-an-integer"
		}
	}
	return in
}

// perturb returns a copy of user in which only the section of y changed (private keys and globals
// inside that section; no condition flags, no child sections).
func perturb(user map[string]any, y *inst) map[string]any {
	out := ref.CanonMap(user)
	sec := out
	for _, k := range y.keyPath() {
		next, _ := sec[k].(map[string]any)
		if next == nil {
			next = map[string]any{}
			sec[k] = next
		}
		sec = next
	}
	abs := strings.Join(y.keyPath(), ".")
	n := 900000
	leaf := func(g bool) string {
		n++
		k := "user"
		if g {
			k = "uglob"
		}
		return fmt.Sprintf("S|%s|%s|%d", k, abs, n)
	}
	sec["p1"] = leaf(false)
	sec["p9"] = leaf(false)
	pm, _ := sec["pm"].(map[string]any)
	if pm == nil {
		pm = map[string]any{}
		sec["pm"] = pm
	}
	pm["q1"] = leaf(false)
	g, _ := sec["global"].(map[string]any)
	if g == nil {
		g = map[string]any{}
		sec["global"] = g
	}
	g["gk1"] = leaf(true)
	g["gnew"] = leaf(true)
	gm, _ := g["gm"].(map[string]any)
	if gm == nil {
		gm = map[string]any{}
		g["gm"] = gm
	}
	gm["x"] = leaf(true)
	deep, _ := gm["deep"].(map[string]any)
	if deep == nil {
		deep = map[string]any{}
		gm["deep"] = deep
	}
	deep["z"] = leaf(true)
	deep["znew"] = leaf(true)
	return out
}
