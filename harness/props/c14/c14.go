// Package c14: values that violate a chart's schema are never rendered or deployed.
//
// What is monitored. For every generated (chart tree with schemas, values) pair the effective
// values of every chart are taken from helm's own chartutil.ProcessDependencies +
// chartutil.CoalesceValues (that computation is judged by C04/C11, not here) and each ENABLED
// chart's values.schema.json is evaluated on its part of that tree by refSchema, an independent
// evaluator for exactly the generated keyword family. expected reject <=> some enabled chart
// violates. Then the real entry points run: Install dry-run, Install against the simulated API
// server, Upgrade of an existing release, client-only template (Install ClientOnly+DryRun) and
// action.Lint on the chart written with chartutil.SaveDir; plus the same with
// SkipSchemaValidation. Refuting observations:
//
//	accepted-although-violating   expected reject, entry point returned no error (lint: no error message)
//	rejected-although-satisfied   expected accept, the schema step rejected
//	error-does-not-name-chart     rejected, but the error text lacks the name (or alias) of a violating chart
//	writes-on-reject              expected reject and a mutation / storage write was logged in the op's window
//	skip-option-still-rejects     SkipSchemaValidation=true and the schema step rejected
//
// Positive control: the accepted real installs/upgrades must be seen writing (Post).
//
// Don't-care zones: wording of the error beyond the chart name; lint's extra per-file check of
// values.yaml against the root schema (rules/values.go: it may reject more, also under
// --skip-schema-validation; only the gate in the templates rule is held to "never rejects
// satisfied values"); $ref and other keywords outside the family (C05); how the effective
// values are computed (C04/C11/C13); non-schema errors (counted, and the run is inconclusive if
// they are frequent).
package c14

import (
	"encoding/json"
	"fmt"
	"math/rand"
	"os"
	"path/filepath"
	"sort"
	"strings"

	"helm.sh/helm/v4/pkg/action"
	chart "helm.sh/helm/v4/pkg/chart/v2"
	chartutil "helm.sh/helm/v4/pkg/chart/v2/util"
	"helm.sh/helm/v4/verifh/core"
	"helm.sh/helm/v4/verifh/env"
	"helm.sh/helm/v4/verifh/sim"
)

const nsName = "ns1"

type caseData struct {
	PSeed  int64  `json:"pseed"`
	N      int    `json:"n"`
	Driver string `json:"driver"`
	Only   int    `json:"only,omitempty"` // 1-based pair index to replay alone
}

func init() {
	core.Register(&core.Prop{
		ID:    "C14",
		Level: "exploration",
		Rule: "pairs (chart tree, values): trees root / root+child / +grandchild / +aliased or tagged sibling / +namesake charts, each chart with or without a values.schema.json drawn from the family {type (7 names, lists), required, enum, minimum/maximum, minLength/maxLength, pattern, nested properties, additionalProperties true|false|schema, items, $schema draft-07|2020-12|none}; values built to satisfy every schema, to break exactly one keyword at one chart, or at random, then spread over the chart's own values.yaml, ancestor sections and user values (with overridden decoys and user nulls); subcharts switched off by condition/tags; a share of the trees contains namesakes (different charts with different schemas known under one name: sibling's child vs child's child, grandchild vs child, real name vs alias of another chart); 35% of the trees carry crds/ directories (root and subcharts, enabled or disabled); each pair runs through install dry-run, real install, upgrade, an upgrade history (base release made from the schema-less variant of the tree or with SkipSchemaValidation, then an upgrade to the pair's chart with values-reuse mode none|reuse|reset|reset-then-reuse and empty|same|overriding new values; expectation from the final values that helm's own functions give for the stored configuration), client-only template, lint, and the skip-schema-validation variants. " +
			"distinct_nontrivial counts distinct (entry point, violating chart levels, first violated keyword, source of the planted violation) tuples of REJECT-expected pairs whose violation sits in a subchart or arrives from a non-default source, plus disabled-subchart-violates shapes.",
		Assumptions: []string{
			"effective values and the enabled set are taken from helm's own ProcessDependencies/CoalesceValues (judged by C04/C11)",
			"refSchema implements the draft-07/2020-12 semantics of the generated keywords; generated schemas stay inside that family (no $ref, no formats, no float-valued integers)",
			"pattern uses Go regexp syntax on both sides",
			"requests are observed at the simulated API server / recording memory driver as in C06",
		},
		Gen:  genCases,
		Run:  run,
		Post: post,
		// generous: the watchdog only guards against hangs (a case needs a few CPU-seconds)
		CaseTimeoutSec: 900,
	})
}

func genCases(seed int64, tier string) []core.Case {
	pairs, per := 2000, 25
	if tier == "thorough" {
		pairs, per = 40000, 50
	}
	rng := rand.New(rand.NewSource(seed*15485863 + 14))
	var out []core.Case
	drivers := []string{"memory", "secrets", "configmaps"}
	for i := 0; i*per < pairs; i++ {
		out = append(out, core.Case{ID: fmt.Sprintf("b%d", i), Data: core.J(caseData{PSeed: rng.Int63(), N: per, Driver: drivers[i%3]})})
	}
	return out
}

// ---------------------------------------------------------------- observation helpers

type obs struct {
	byClass             map[string]int
	mutations, stWrites []sim.Event
}

func window(w *env.World, from int64) obs {
	o := obs{byClass: map[string]int{}}
	for _, e := range w.Sim.Log() {
		if e.Seq <= from || e.Phase != "done" {
			continue
		}
		o.byClass[e.Class]++
		switch {
		case e.Class == "mutation":
			o.mutations = append(o.mutations, e)
		case e.Class == "storage" && e.Method != "GET":
			o.stWrites = append(o.stWrites, e)
		}
	}
	return o
}

func isSchemaRejection(msg string) bool {
	return strings.Contains(msg, "values don't meet the specifications of the schema") || strings.Contains(msg, "jsonschema")
}

func short(s string, n int) string {
	s = strings.ReplaceAll(s, "\n", " | ")
	if len(s) > n {
		return s[:n] + "..."
	}
	return s
}

// verdict is the reference judgement of one pair.
type verdict struct {
	violating []*chartSpec       // enabled charts whose schema is violated
	first     map[string]string  // chart level -> first violated keyword
	disabled  []*chartSpec       // disabled charts whose (would-be) values violate their schema
	effective map[string]any     // helm's coalesced values
	enabled   map[string]bool    // by display path
	viols     map[string][]sviol // per chart display path
	// twice: the values lint's templates rule validates differ from the effective values of
	// install/upgrade/template (see lintValuesDiffer). Cause shape of the lint findings.
	twice bool
}

func (v *verdict) reject() bool { return len(v.violating) > 0 }

func (v *verdict) levels() string {
	var l []string
	for _, c := range v.violating {
		l = append(l, c.Level)
	}
	sort.Strings(l)
	return strings.Join(l, "+")
}

// normalize turns helm's value tree into plain map[string]any / []any.
func normalize(x any) any {
	switch t := x.(type) {
	case chartutil.Values:
		return normalize(map[string]any(t))
	case map[string]any:
		o := make(map[string]any, len(t))
		for k, v := range t {
			o[k] = normalize(v)
		}
		return o
	case []any:
		o := make([]any, len(t))
		for i := range t {
			o[i] = normalize(t[i])
		}
		return o
	}
	return x
}

// judge computes the expected outcome of a pair. It returns an error text when helm's own value
// computation fails or disagrees with the generator's model of the enabled set (harness problem).
func judge(p *pair, asFloat bool) (*verdict, string) {
	v, problem := judgeValues(p, p.files().Build(), p.userVals(asFloat), true)
	if v != nil {
		v.twice = lintValuesDiffer(p, asFloat, v.effective)
	}
	return v, problem
}

// judgeValues evaluates the schemas of the enabled charts of ch (a fresh chart object of pair p,
// possibly with reused default values) on the effective values helm computes for vals. With
// useModel the generator's own idea of the enabled set must agree with helm's; without it (upgrade
// histories, where stored values take part) helm's processed dependency tree is taken as is.
func judgeValues(p *pair, ch *chart.Chart, vals map[string]any, useModel bool) (*verdict, string) {
	if err := chartutil.ProcessDependencies(ch, vals); err != nil {
		return nil, "ProcessDependencies: " + err.Error()
	}
	cv, err := chartutil.CoalesceValues(ch, vals)
	if err != nil {
		return nil, "CoalesceValues: " + err.Error()
	}
	v := &verdict{effective: normalize(cv).(map[string]any), first: map[string]string{}, enabled: map[string]bool{}, viols: map[string][]sviol{}}
	// helm's enabled set
	var walk func(c *chart.Chart, path string)
	walk = func(c *chart.Chart, path string) {
		v.enabled[path] = true
		for _, d := range c.Dependencies() {
			walk(d, path+"/"+d.Name())
		}
	}
	walk(ch, "")
	for _, c := range p.Charts {
		key := ""
		for _, s := range c.Path {
			key += "/" + s
		}
		on := v.enabled[key]
		if useModel {
			model := c.Enabled
			for a := c.Parent; a != nil; a = a.Parent {
				model = model && a.Enabled
			}
			if model != on {
				return nil, fmt.Sprintf("generator expects chart %s enabled=%v, helm's ProcessDependencies says %v", c.Display, model, on)
			}
		}
		if c.Schema == nil {
			continue
		}
		var part any = v.effective
		for _, s := range c.Path {
			m, _ := part.(map[string]any)
			part = m[s]
		}
		if part == nil {
			part = map[string]any{}
		}
		var out []sviol
		refSchema(c.Schema, part, "", &out)
		if len(out) == 0 {
			continue
		}
		v.viols[key] = out
		if on {
			v.violating = append(v.violating, c)
			v.first[c.Level] = out[0].Keyword
		} else {
			v.disabled = append(v.disabled, c)
		}
	}
	return v, ""
}

// upgradeVerdict computes the expected outcome of an upgrade of release name to pair p's chart
// with newVals under a values-reuse mode. The rule by which the stored configuration takes part
// (Upgrade.reuseValues; judged by C13) is applied with helm's own functions to the chart and
// config of the deployed revision as read back from release storage.
func upgradeVerdict(w *env.World, name string, p *pair, mode string, newVals map[string]any) (*verdict, string) {
	cur, err := w.Config("judge").Releases.Deployed(name)
	if err != nil {
		return nil, "no deployed base release: " + err.Error()
	}
	oldConfig := func() map[string]any { return env.DeepCopyMap(cur.Config) }
	ch := p.files().Build()
	vals := newVals
	switch mode {
	case "reset":
	case "reuse":
		oldVals, err := chartutil.CoalesceValues(cur.Chart, oldConfig())
		if err != nil {
			return nil, "CoalesceValues(old): " + err.Error()
		}
		vals = chartutil.CoalesceTables(vals, oldConfig())
		ch.Values = oldVals
	case "reset-then-reuse":
		vals = chartutil.CoalesceTables(vals, oldConfig())
	default:
		if len(vals) == 0 && len(cur.Config) > 0 {
			vals = oldConfig()
		}
	}
	if vals == nil {
		vals = map[string]any{}
	}
	return judgeValues(p, ch, vals, false)
}

// lintValuesDiffer replays, with helm's own functions, what pkg/lint does to the values before
// its schema gate: rules/values.go coalesces values.yaml into a SHALLOW copy of the user values
// (deleting user nulls inside nested tables of the caller's map), and rules/template.go coalesces
// the chart values twice (CoalesceValues, then again inside ToRenderValues), so a null is
// processed twice (a user null that deleted a default lets the default come back; a null default
// is deleted). It reports whether the result differs from the effective values of install. It is
// used only to name the cause shape of lint findings, never to decide a verdict.
func lintValuesDiffer(p *pair, asFloat bool, effective map[string]any) bool {
	files := p.files()
	lu := p.userVals(asFloat)
	if y, has := files["values.yaml"]; has {
		if rootVals, err := chartutil.ReadValues([]byte(y)); err == nil {
			t := chartutil.CoalesceTables(make(map[string]any, len(lu)), lu)
			chartutil.CoalesceTables(t, rootVals)
		}
	}
	ch := files.Build()
	if err := chartutil.ProcessDependencies(ch, lu); err != nil {
		return true
	}
	c1, err := chartutil.CoalesceValues(ch, lu)
	if err != nil {
		return true
	}
	c2, err := chartutil.CoalesceValues(ch, c1)
	if err != nil {
		return true
	}
	return jsonLine(normalize(c2)) != jsonLine(effective)
}

// ---------------------------------------------------------------- Run

type entry struct {
	name string
	skip bool
	run  func() (err error, o obs) // executes the entry point on a fresh chart object
	// runV, if set, is used instead of run and also returns the verdict that applies to this
	// entry point (upgrade histories: the expected outcome depends on the stored release)
	runV func() (err error, o obs, v *verdict)
}

func run(c core.Case, verbose bool) core.Result {
	env.Quiet()
	var d caseData
	core.U(c, &d)
	var res core.Result
	w := env.NewWorld(d.Driver, nsName)
	tmp, err := os.MkdirTemp("", "c14-")
	if err != nil {
		res.Inconclusive = "cannot create temp dir: " + err.Error()
		return res
	}
	defer os.RemoveAll(tmp)
	var samples []any

	for i := 1; i <= d.N; i++ {
		if d.Only != 0 && d.Only != i {
			continue
		}
		rng := rand.New(rand.NewSource(d.PSeed + int64(i)*7919))
		p := newPair(rng)
		p.assignCRDs(rand.New(rand.NewSource(d.PSeed ^ (int64(i) * 104729))))
		asFloat := rng.Intn(2) == 0
		drySpelling := []string{"flag", "client", "server"}[rng.Intn(3)]
		v, problem := judge(p, asFloat)
		res.Stat("pairs", 1)
		if problem != "" {
			res.Stat("pairs_skipped_value_computation_failed", 1)
			if verbose {
				fmt.Printf("pair %d skipped: %s\n", i, problem)
			}
			if strings.HasPrefix(problem, "generator expects") {
				res.Inconclusive = problem
			}
			continue
		}
		res.Stat("pairs_mode_"+p.Mode, 1)
		if v.reject() {
			res.Stat("expected_reject", 1)
			for _, ch := range v.violating {
				res.Stat("expected_reject_at_"+ch.Level, 1)
				if ch.Twin {
					res.Stat("expected_reject_at_chart_with_namesake", 1)
				}
			}
		} else {
			res.Stat("expected_accept", 1)
		}
		enabledCRDs, disabledCRDs := 0, 0
		for _, ch := range p.Charts {
			on := ch.Enabled
			for a := ch.Parent; a != nil; a = a.Parent {
				on = on && a.Enabled
			}
			if ch.CRDs && on {
				enabledCRDs++
			} else if ch.CRDs {
				disabledCRDs++
			}
		}
		if enabledCRDs+disabledCRDs > 0 {
			res.Stat("pairs_with_crds_directory", 1)
		}
		if v.reject() && enabledCRDs > 0 {
			res.Stat("expected_reject_with_crds_in_enabled_chart", 1)
		}
		if disabledCRDs > 0 {
			res.Stat("pairs_with_crds_in_disabled_subchart", 1)
		}
		twins, twinsLive := 0, 0
		for _, ch := range p.Charts {
			if ch.Twin {
				twins++
				if ch.Enabled && ch.Schema != nil { // Enabled already implies enabled ancestors
					twinsLive++
				}
			}
		}
		if twins > 0 {
			res.Stat("pairs_with_namesake_charts", 1)
			if twinsLive == twins {
				res.Stat("pairs_with_both_namesakes_enabled_and_schemas", 1)
				if !v.reject() {
					res.Stat("expected_accept_with_enabled_namesake_schemas", 1)
				}
			}
		}
		if v.twice {
			res.Stat("pairs_where_lint_values_differ_from_install_values", 1)
		}
		if len(v.disabled) > 0 {
			res.Stat("pairs_with_disabled_violating_subchart", 1)
			if !v.reject() {
				res.Stat("expected_accept_only_because_violating_subchart_is_disabled", 1)
			}
		}
		// the shape of the pair: which levels violate, first keyword, where the planted value came from
		shape := "satisfied"
		if v.reject() {
			first := v.violating[len(v.violating)-1]
			src := "unplanted"
			if p.Planted != "" && strings.HasPrefix(p.Planted, first.Level+"/") {
				src = p.PlantSrc
			}
			shape = fmt.Sprintf("level=%s keyword=%s src=%s", v.levels(), v.first[first.Level], src)
		}
		if verbose {
			printPair(i, p, v, asFloat)
		}

		rel := fmt.Sprintf("p%d", i)
		lintDir := filepath.Join(tmp, rel)
		install := func(name, dry string, skip bool) func() (error, obs) {
			return func() (error, obs) {
				agent := fmt.Sprintf("%s-%s-skip%v", name, dry, skip)
				from := w.Sim.Tick()
				r := w.Exec(agent, name, env.Op{Kind: "install", DryRun: dry, SkipSchema: skip, Vals: p.userVals(asFloat)}, p.files().Build())
				return r.Err, window(w, from)
			}
		}
		upgrade := func(skip bool) func() (error, obs) {
			return func() (error, obs) {
				name := fmt.Sprintf("%su%v", rel, skip)
				if r := w.Exec("pre-"+name, name, env.Op{Kind: "install"}, baseFiles().Build()); r.Err != nil {
					return fmt.Errorf("harness: base install failed: %v", r.Err), obs{}
				}
				from := w.Sim.Tick()
				r := w.Exec("up-"+name, name, env.Op{Kind: "upgrade", SkipSchema: skip, Vals: p.userVals(asFloat)}, p.files().Build())
				return r.Err, window(w, from)
			}
		}
		template := func(skip bool) func() (error, obs) {
			return func() (error, obs) {
				from := w.Sim.Tick()
				in := action.NewInstall(w.Config("template-" + rel))
				in.ReleaseName, in.Namespace = "release-name", nsName
				in.DryRun, in.DryRunOption, in.Replace, in.ClientOnly = true, "true", true, true
				in.SkipSchemaValidation = skip
				_, err := in.Run(p.files().Build(), p.userVals(asFloat))
				return err, window(w, from)
			}
		}
		lint := func(skip bool) func() (error, obs) {
			return func() (error, obs) {
				os.RemoveAll(lintDir)
				if err := chartutil.SaveDir(p.files().Build(), lintDir); err != nil {
					return fmt.Errorf("harness: SaveDir failed: %v", err), obs{}
				}
				l := action.NewLint()
				l.Namespace, l.SkipSchemaValidation = nsName, skip
				lr := l.Run([]string{filepath.Join(lintDir, "rootc")}, p.userVals(asFloat))
				os.RemoveAll(lintDir)
				// lint's verdict: failure = at least one error message. "gate" = the schema step of the
				// templates rule; "perFile" = rules/values.go checking values.yaml alone (don't-care zone)
				var all, gate, perFile, other []string
				for _, m := range lr.Messages {
					if m.Severity < 3 { // support.ErrorSev
						continue
					}
					all = append(all, m.Error())
					switch {
					case m.Path == "values.yaml":
						perFile = append(perFile, m.Error())
					case isSchemaRejection(m.Err.Error()):
						gate = append(gate, m.Error())
					default:
						other = append(other, m.Error())
					}
				}
				if len(lr.Messages) == 0 {
					for _, e := range lr.Errors {
						all, other = append(all, e.Error()), append(other, e.Error())
					}
				}
				if len(all) == 0 {
					return nil, obs{}
				}
				return &lintErr{all: strings.Join(all, "\n"), gate: strings.Join(gate, "\n"), perFile: len(perFile), other: strings.Join(other, "\n")}, obs{}
			}
		}
		// upgrade history: the base release comes from the schema-less variant of the tree or was
		// installed with SkipSchemaValidation (so its stored values may violate); the upgrade under
		// test goes to the pair's chart under one values-reuse mode, with empty or non-empty new values
		hr := rand.New(rand.NewSource(d.PSeed ^ (int64(i) * 15485863)))
		hBase := []string{"schemaless", "skip"}[hr.Intn(2)]
		hMode := []string{"none", "reuse", "reset", "reset-then-reuse"}[hr.Intn(4)]
		hNew := []string{"empty", "empty", "same", "override"}[hr.Intn(4)]
		history := func() (error, obs, *verdict) {
			name := rel + "h"
			bf := p.files()
			if hBase == "schemaless" {
				for k := range bf {
					if strings.HasSuffix(k, "values.schema.json") {
						delete(bf, k)
					}
				}
			}
			if r := w.Exec("pre-"+name, name, env.Op{Kind: "install", SkipSchema: true, Vals: p.userVals(asFloat)}, bf.Build()); r.Err != nil {
				res.Stat("upgrade_history_base_install_failed", 1)
				return nil, obs{}, nil
			}
			newVals := func() map[string]any {
				switch hNew {
				case "same":
					return p.userVals(asFloat)
				case "override":
					return map[string]any{"name": "web-1", "replicas": int64(2)}
				}
				return map[string]any{}
			}
			hv, problem := upgradeVerdict(w, name, p, hMode, newVals())
			if problem != "" {
				res.Stat("upgrade_history_value_computation_failed", 1)
				return nil, obs{}, nil
			}
			from := w.Sim.Tick()
			r := w.Exec("up-"+name, name, env.Op{Kind: "upgrade", ReuseValues: hMode == "reuse", ResetValues: hMode == "reset", ResetThenReuse: hMode == "reset-then-reuse", Vals: newVals()}, p.files().Build())
			return r.Err, window(w, from), hv
		}
		entries := []entry{
			{name: fmt.Sprintf("upgrade-history[base=%s mode=%s new=%s]", hBase, hMode, hNew), runV: history},
			{name: "install-dry-run", skip: false, run: install(rel+"d", drySpelling, false)},
			{name: "template", skip: false, run: template(false)},
			{name: "lint", skip: false, run: lint(false)},
			{name: "upgrade", skip: false, run: upgrade(false)},
			{name: "install", skip: false, run: install(rel, "", false)},
			{name: "install-dry-run", skip: true, run: install(rel+"ds", drySpelling, true)},
			{name: "lint", skip: true, run: lint(true)},
		}
		switch i % 3 {
		case 0:
			entries = append(entries, entry{name: "template", skip: true, run: template(true)})
		case 1:
			entries = append(entries, entry{name: "upgrade", skip: true, run: upgrade(true)})
		default:
			entries = append(entries, entry{name: "install", skip: true, run: install(rel+"s", "", true)})
		}

		var sampleLines []string
		for _, e := range entries {
			var err error
			var o obs
			label := e.name
			if e.skip {
				label += "+skip"
			}
			v, shape := v, shape // the verdict that applies to this entry point
			isHistory := e.runV != nil
			if isHistory {
				var hv *verdict
				if core.Guard(&res, label, func() { err, o, hv = e.runV() }) || hv == nil {
					continue
				}
				v, shape = hv, "level="+hv.levels()
				res.Stat("upgrade_history_ops", 1)
				if hv.reject() {
					res.Stat("upgrade_history_expected_reject", 1)
					if hMode == "reuse" && hNew == "empty" {
						res.Stat("upgrade_history_reuse_without_new_values_expected_reject", 1)
					}
				} else {
					res.Stat("upgrade_history_expected_accept", 1)
				}
			} else if core.Guard(&res, label, func() { err, o = e.run() }) {
				continue
			}
			res.Evals++
			res.Stat("ops_"+label, 1)
			for cl, n := range o.byClass {
				res.Stat("requests_inspected_"+cl, int64(n))
			}
			msg := ""
			if err != nil {
				msg = err.Error()
			}
			if strings.HasPrefix(msg, "harness:") {
				res.Inconclusive = msg
				continue
			}
			// what counts as "the schema step rejected"
			schemaRejected := err != nil && isSchemaRejection(msg)
			nonSchema := err != nil && !schemaRejected
			if le, isLint := err.(*lintErr); isLint {
				schemaRejected = le.gate != "" // per-file values.yaml check is a don't-care zone
				nonSchema = le.other != ""
				if le.perFile > 0 {
					res.Stat("lint_per_file_values_check_errors", 1)
					if e.skip {
						res.Stat("lint_per_file_values_check_errors_under_skip", 1)
					}
				}
			}
			if nonSchema {
				res.Stat("nonschema_errors", 1)
				if verbose {
					fmt.Printf("    %s: non-schema error: %s\n", label, short(msg, 300))
				}
			}
			// cause shape of the lint findings: lint validates values that differ from install's
			lintTwice := e.name == "lint" && v.twice
			cls := func(c string) string {
				if lintTwice {
					return label + ": lint validates other values than install does (nulls processed twice / user values mutated by the values.yaml rule)"
				}
				return c
			}
			detail := func() string {
				return fmt.Sprintf("pair seed %d #%d mode=%s planted=%s(%s) driver=%s user-ints-as-float=%v | violating: %s | user values %s | error: %s",
					d.PSeed, i, p.Mode, p.Planted, p.PlantSrc, d.Driver, asFloat, violText(v), short(jsonLine(p.User), 400), short(msg, 400))
			}
			switch {
			case e.skip:
				if schemaRejected {
					res.Add("skip-option-still-rejects", cls(label), "SkipSchemaValidation=true but the schema step rejected | %s", detail())
				} else {
					res.Stat("skip_ops_not_rejected", 1)
					if v.reject() {
						res.Stat("skip_ops_not_rejected_on_violating_values", 1)
					}
				}
			case v.reject():
				if err == nil {
					res.Add("accepted-although-violating", cls(label+": "+shape), "%s succeeded although %s | %s", label, violText(v), detail())
				} else {
					res.Stat("rejects_"+e.name, 1)
					for _, ch := range v.violating {
						if !strings.Contains(msg, ch.Display) && !strings.Contains(msg, ch.Name) {
							res.Add("error-does-not-name-chart", cls(fmt.Sprintf("%s: violating chart at level %s", label, ch.Level)), "the error does not name chart %q | %s", ch.Display, detail())
						}
					}
				}
				for _, ev := range o.mutations {
					cl := fmt.Sprintf("%s: %s %s", label, ev.Method, ev.Kind)
					if ev.Kind == "CustomResourceDefinition" && ev.Method == "POST" && e.name == "install" {
						// its own cause shape, so that it never masks other writes on reject
						cl = "install: CRDs from crds/ created before the schema gate"
						res.Stat("crd_posts_on_rejected_install", 1)
					}
					res.Add("writes-on-reject", cl, "%s %s -> %d although the values violate the schema | %s", ev.Method, ev.Path, ev.Code, detail())
				}
				for _, ev := range o.stWrites {
					res.Add("writes-on-reject", fmt.Sprintf("%s: %s release-record", label, ev.Method), "%s %s -> %d although the values violate the schema | %s", ev.Method, ev.Path, ev.Code, detail())
				}
				nontrivial := p.Planted != "" && p.PlantSrc != "own-default" || v.levels() != "root"
				if nontrivial {
					res.Key("%s|%s", label, shape)
				}
			default:
				if schemaRejected {
					res.Add("rejected-although-satisfied", cls(fmt.Sprintf("%s: every enabled chart satisfies its schema (mode %s)", label, p.Mode)), "%s was rejected by the schema step although the reference evaluator finds no violation | %s", label, detail())
				} else if err == nil {
					res.Stat("accepts_"+e.name, 1)
					if e.name == "install" || e.name == "upgrade" || isHistory {
						res.Stat("accepted_real_op_mutations", int64(len(o.mutations)))
						res.Stat("accepted_real_op_storage_writes", int64(len(o.stWrites)))
					}
				}
				if len(v.disabled) > 0 {
					res.Key("%s|disabled %s subchart violates, op accepted", label, v.disabled[0].Level)
				}
			}
			if verbose {
				fmt.Printf("    %-22s err=%s requests=%v\n", label, short(msg, 200), o.byClass)
			}
			sampleLines = append(sampleLines, fmt.Sprintf("%s: err=%q requests=%v", label, short(msg, 120), o.byClass))
		}
		if len(samples) < 2 && v.reject() && v.levels() != "root" {
			samples = append(samples, map[string]any{"mode": p.Mode, "planted": p.Planted, "planted_source": p.PlantSrc, "expected": "reject", "violations": violText(v), "user_values": p.User, "entry_points": sampleLines})
		}
	}
	if len(samples) > 0 {
		res.Sample = map[string]any{"driver": d.Driver, "pairs": samples}
	}
	return res
}

type lintErr struct {
	all, gate, other string
	perFile          int
}

func (e *lintErr) Error() string { return e.all }

func jsonLine(v any) string {
	b, _ := json.Marshal(v)
	return string(b)
}

func violText(v *verdict) string {
	if !v.reject() {
		return "none"
	}
	var p []string
	for _, c := range v.violating {
		key := ""
		for _, s := range c.Path {
			key += "/" + s
		}
		vs := v.viols[key]
		p = append(p, fmt.Sprintf("%s chart %q: %s at %q", c.Level, c.Display, vs[0].Keyword, vs[0].Path))
	}
	return strings.Join(p, "; ")
}

func printPair(i int, p *pair, v *verdict, asFloat bool) {
	fmt.Printf("pair %d: mode=%s planted=%s source=%s umbrella=%v user-ints-as-float=%v\n", i, p.Mode, p.Planted, p.PlantSrc, p.Umbrella, asFloat)
	for _, c := range p.Charts {
		fmt.Printf("  chart %-7s display=%s level=%s enabled(model)=%v\n    schema:   %s\n    defaults: %s\n", c.Name, c.Display, c.Level, c.Enabled, jsonLine(c.Schema), jsonLine(c.Defaults))
	}
	fmt.Printf("  user values: %s\n  effective (helm CoalesceValues): %s\n", jsonLine(p.User), jsonLine(v.effective))
	for k, vs := range v.viols {
		fmt.Printf("  refSchema: chart at %q violates: %v\n", k, vs)
	}
	fmt.Printf("  expected: reject=%v (%s)\n", v.reject(), violText(v))
}

// ---------------------------------------------------------------- Post

func post(a *core.Agg) string {
	var miss []string
	need := func(k string, n int64) {
		if a.Stats[k] < n {
			miss = append(miss, fmt.Sprintf("%s=%d (< %d)", k, a.Stats[k], n))
		}
	}
	need("expected_reject", 200)
	need("expected_accept", 200)
	need("expected_reject_at_root", 20)
	need("expected_reject_at_child", 20)
	need("expected_reject_at_grandchild", 20)
	need("expected_accept_only_because_violating_subchart_is_disabled", 3)
	need("skip_ops_not_rejected_on_violating_values", 50)
	need("expected_reject_with_crds_in_enabled_chart", 50)
	need("pairs_with_crds_in_disabled_subchart", 10)
	need("expected_reject_at_chart_with_namesake", 30)
	need("upgrade_history_expected_reject", 100)
	need("upgrade_history_expected_accept", 50)
	need("upgrade_history_reuse_without_new_values_expected_reject", 20)
	need("expected_accept_with_enabled_namesake_schemas", 3)
	need("accepted_real_op_mutations", 1)
	need("accepted_real_op_storage_writes", 1)
	for _, e := range []string{"install-dry-run", "install", "upgrade", "template", "lint"} {
		need("ops_"+e, 100)
	}
	var ops int64
	for k, n := range a.Stats {
		if strings.HasPrefix(k, "ops_") {
			ops += n
		}
	}
	if a.Stats["nonschema_errors"]*50 > ops {
		miss = append(miss, fmt.Sprintf("nonschema_errors=%d of %d ops", a.Stats["nonschema_errors"], ops))
	}
	if a.Stats["pairs_skipped_value_computation_failed"]*20 > a.Stats["pairs"] {
		miss = append(miss, fmt.Sprintf("pairs_skipped_value_computation_failed=%d", a.Stats["pairs_skipped_value_computation_failed"]))
	}
	if len(miss) > 0 {
		return "monitor saw too little: " + strings.Join(miss, "; ")
	}
	return ""
}
