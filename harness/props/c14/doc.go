// Package c14: monitor for property C14 (see DESIGN.md section 3).
package c14
