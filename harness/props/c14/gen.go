package c14

import (
	"encoding/json"
	"fmt"
	"math/rand"
	"sort"
	"strings"

	"helm.sh/helm/v4/verifh/gen"
)

// ---------------------------------------------------------------- the generated pair

// chartSpec is one chart of the generated tree.
type chartSpec struct {
	Name     string // chart name
	Display  string // alias if any, else name: the key under which the parent passes values
	Level    string // root | child | grandchild | sibling
	Path     []string
	Parent   *chartSpec
	Children []*chartSpec
	Schema   map[string]any // nil = chart has no values.schema.json
	Draft    string         // "" | draft-07 | 2020-12 ($schema header)
	Defaults map[string]any // content of the chart's own values.yaml
	Enabled  bool           // as intended by the generator (model: user > root values.yaml > true)
	Inst     map[string]any // intended final values of this chart (before source distribution)
	CRDs     bool           // chart ships a crds/ directory with one CustomResourceDefinition
	Twin     bool           // another chart of the tree is known to helm under the same name (different schema)
}

// id is unique per chart of the tree (namesakes sit under different parents).
func (c *chartSpec) id() string {
	if c.Parent == nil || c.Parent.Parent == nil {
		return c.Name
	}
	return c.Parent.id() + "-" + c.Name
}

type pair struct {
	Charts   []*chartSpec // root first
	User     map[string]any
	Mode     string // satisfy | violate-one | random
	Planted  string // "level/keyword/source" of the planted violation ("" if none)
	PlantSrc string
	Umbrella bool // root chart has no templates/ directory and no values.yaml
	Nulls    bool // a user null deletes a default
}

func (p *pair) root() *chartSpec { return p.Charts[0] }

// ---------------------------------------------------------------- schema family

var sevenTypes = []string{"string", "number", "integer", "boolean", "object", "array", "null"}

var patterns = []string{"^[a-z][a-z0-9-]*$", "^v[0-9]+", "-prod$", "^[a-z]+$", "[0-9]"}

// candidate pools per JSON type
var strPool = []any{"a", "ab", "abc", "web-1", "prod", "v12", "Hello", "x_y", "héé", "", "api-prod", "averyveryverylongname-0123456789", "UPPER CASE!", "7"}
var intPool = []any{0, 1, 2, 3, 5, 8, 80, 443, 65536, -1, -7, 100}
var numPool = []any{0.5, 1.5, 0.25, 2.5, -0.5, 99.5, 3, 0, 1}
var modePool = []any{"dev", "prod", "stage", 3, "zzz", true}

func pick(rng *rand.Rand, xs []any) any { return xs[rng.Intn(len(xs))] }

func chance(rng *rand.Rand, pct int) bool { return rng.Intn(100) < pct }

// leafSchema generates the schema of one vocabulary key.
func leafSchema(rng *rand.Rand, kind string, depth int) map[string]any {
	s := map[string]any{}
	switch kind {
	case "string":
		s["type"] = "string"
		if chance(rng, 50) {
			s["minLength"] = rng.Intn(4)
		}
		if chance(rng, 50) {
			s["maxLength"] = 2 + rng.Intn(8)
		}
		if chance(rng, 40) {
			s["pattern"] = patterns[rng.Intn(len(patterns))]
		}
	case "integer":
		s["type"] = "integer"
		if chance(rng, 60) {
			s["minimum"] = rng.Intn(3)
		}
		if chance(rng, 60) {
			s["maximum"] = 3 + rng.Intn(100)
		}
	case "number":
		s["type"] = "number"
		if chance(rng, 60) {
			s["minimum"] = []any{0, 0.5, -1}[rng.Intn(3)]
		}
		if chance(rng, 60) {
			s["maximum"] = []any{1, 2.5, 100}[rng.Intn(3)]
		}
	case "boolean":
		s["type"] = "boolean"
	case "enum":
		n := 2 + rng.Intn(3)
		var e []any
		for _, j := range rng.Perm(4)[:n] { // enum members must be unique (metaschema)
			e = append(e, modePool[j])
		}
		if chance(rng, 15) {
			e = append(e, nil)
		}
		s["enum"] = e
		if chance(rng, 40) {
			s["type"] = []any{"string", "integer", "null"}
		}
	case "intarray":
		s["type"] = "array"
		it := leafSchema(rng, "integer", depth+1)
		if chance(rng, 20) {
			it["type"] = []any{"integer", "null"}
		}
		s["items"] = it
	case "strarray":
		s["type"] = "array"
		s["items"] = leafSchema(rng, "string", depth+1)
	case "object":
		s = objSchema(rng, []vocabEntry{{"cpu", "string"}, {"mem", "integer"}, {"limits", "object2"}, {"flags", "strarray"}}, depth+1, nil)
	case "object2":
		s = objSchema(rng, []vocabEntry{{"max", "integer"}, {"min", "number"}, {"unit", "enum"}}, depth+1, nil)
	case "strmap":
		s["type"] = "object"
		s["additionalProperties"] = leafSchema(rng, []string{"string", "integer", "boolean"}[rng.Intn(3)], depth+1)
	case "nullable":
		s["type"] = []any{[]string{"string", "integer", "boolean"}[rng.Intn(3)], "null"}
	}
	// type flip: the declared type becomes an arbitrary one of the seven
	if chance(rng, 10) && kind != "enum" {
		s["type"] = sevenTypes[rng.Intn(7)]
	}
	return s
}

type vocabEntry struct{ key, kind string }

var topVocab = []vocabEntry{{"name", "string"}, {"replicas", "integer"}, {"ratio", "number"}, {"debug", "boolean"}, {"mode", "enum"},
	{"ports", "intarray"}, {"labels", "strarray"}, {"res", "object"}, {"extra", "strmap"}, {"opt", "nullable"}}

// objSchema generates an object schema over a vocabulary. permissive lists keys helm itself puts
// into the values of the chart (global, enabled, subchart sections) that a closed schema should
// normally admit.
func objSchema(rng *rand.Rand, vocab []vocabEntry, depth int, permissive map[string]any) map[string]any {
	s := map[string]any{"type": "object"}
	props := map[string]any{}
	var req []any
	for _, ve := range vocab {
		if chance(rng, 60) {
			props[ve.key] = leafSchema(rng, ve.kind, depth)
		}
		if chance(rng, 25) {
			req = append(req, ve.key)
		}
	}
	switch x := rng.Intn(100); {
	case x < 40:
	case x < 55:
		s["additionalProperties"] = true
	case x < 80:
		s["additionalProperties"] = false
	case x < 90:
		s["additionalProperties"] = map[string]any{"type": "string"}
	default:
		s["additionalProperties"] = map[string]any{"type": "integer", "minimum": 0}
	}
	if ap, closed := s["additionalProperties"]; closed && ap != true && chance(rng, 85) {
		for k, v := range permissive {
			props[k] = v
		}
	}
	if len(props) > 0 {
		s["properties"] = props
	}
	if len(req) > 0 {
		s["required"] = req
	}
	if depth > 0 && chance(rng, 15) {
		delete(s, "type")
	}
	return s
}

// ---------------------------------------------------------------- instances

// natural returns a plausible value for a vocabulary kind (used where no schema constrains).
func natural(rng *rand.Rand, kind string) any {
	switch kind {
	case "string":
		return pick(rng, strPool[:6])
	case "integer":
		return pick(rng, intPool[:6])
	case "number":
		return pick(rng, numPool[:4])
	case "boolean":
		return chance(rng, 50)
	case "enum":
		return pick(rng, modePool[:3])
	case "intarray":
		return []any{pick(rng, intPool[1:8]), pick(rng, intPool[1:8])}
	case "strarray":
		return []any{pick(rng, strPool[:5])}
	case "object":
		return map[string]any{"cpu": pick(rng, strPool[:5]), "mem": pick(rng, intPool[:8])}
	case "object2":
		return map[string]any{"max": pick(rng, intPool[:8])}
	case "strmap":
		return map[string]any{"note": pick(rng, strPool[:5])}
	case "nullable":
		return pick(rng, strPool[:5])
	}
	return "x"
}

func kindOf(key string) string {
	for _, v := range [][]vocabEntry{topVocab, {{"cpu", "string"}, {"mem", "integer"}, {"limits", "object2"}, {"flags", "strarray"}, {"max", "integer"}, {"min", "number"}, {"unit", "enum"}}} {
		for _, ve := range v {
			if ve.key == key {
				return ve.kind
			}
		}
	}
	return "string"
}

func ok(s any, v any) bool {
	var out []sviol
	refSchema(s, v, "", &out)
	return len(out) == 0
}

// satisfy tries to build an instance of schema s (sampling candidates and filtering them with the
// reference evaluator; composite values are built recursively). It may fail for unsatisfiable
// schemas; the pair is then simply a violating one.
func satisfy(rng *rand.Rand, s any, key string) any {
	m, isMap := s.(map[string]any)
	if !isMap {
		return natural(rng, kindOf(key))
	}
	var types []string
	switch t := m["type"].(type) {
	case string:
		types = []string{t}
	case []any:
		for _, x := range t {
			types = append(types, x.(string))
		}
	}
	if e, ok2 := m["enum"].([]any); ok2 {
		for try := 0; try < 8; try++ {
			if c := e[rng.Intn(len(e))]; ok(s, c) {
				return c
			}
		}
	}
	if len(types) == 0 {
		if _, hasProps := m["properties"]; hasProps {
			types = []string{"object"}
		} else {
			c := natural(rng, kindOf(key))
			if ok(s, c) {
				return c
			}
			types = []string{"object"}
		}
	}
	t := types[0]
	if t == "null" && len(types) > 1 {
		t = types[1]
	}
	var pool []any
	switch t {
	case "null":
		return nil
	case "boolean":
		return chance(rng, 50)
	case "string":
		pool = strPool
	case "integer":
		pool = intPool
	case "number":
		pool = numPool
	case "array":
		n := rng.Intn(3)
		arr := []any{}
		for i := 0; i < n; i++ {
			arr = append(arr, satisfy(rng, m["items"], key+"[]"))
		}
		return arr
	case "object":
		obj := map[string]any{}
		props, _ := m["properties"].(map[string]any)
		req := map[string]bool{}
		if r, ok2 := m["required"].([]any); ok2 {
			for _, x := range r {
				req[x.(string)] = true
			}
		}
		var pk []string
		for k := range props {
			pk = append(pk, k)
		}
		sort.Strings(pk)
		for _, k := range pk {
			if k == "global" || k == "enabled" || k == "tags" || isChartName(k) {
				continue // helm's own keys: supplied by helm / the enable flags, not by the instance
			}
			if req[k] || chance(rng, 70) {
				obj[k] = satisfy(rng, props[k], k)
			}
		}
		var rk []string
		for k := range req {
			rk = append(rk, k)
		}
		sort.Strings(rk)
		for _, k := range rk {
			if _, done := obj[k]; done {
				continue
			}
			if ap, has := m["additionalProperties"]; has && ap != true && ap != false {
				obj[k] = satisfy(rng, ap, k)
			} else {
				obj[k] = natural(rng, kindOf(k))
			}
		}
		if ap, has := m["additionalProperties"]; (!has || ap == true) && chance(rng, 25) {
			obj["misc"] = natural(rng, "string")
		}
		return obj
	}
	start := rng.Intn(len(pool))
	for i := range pool {
		if c := pool[(start+i)%len(pool)]; ok(s, c) {
			return c
		}
	}
	return pool[start]
}

func isChartName(k string) bool {
	return k == "kidc" || k == "grandc" || k == "sibc" || k == "sibx"
}

// opportunity is one way of breaking one keyword of a satisfying instance.
type opportunity struct {
	keyword string
	topKey  string // top-level key of the chart's values that carries the edit
	apply   func()
}

func otherType(rng *rand.Rand, s map[string]any) any {
	cands := []any{"str", 7, 1.5, true, []any{"l"}, map[string]any{"o": 1}}
	start := rng.Intn(len(cands))
	for i := range cands {
		c := cands[(start+i)%len(cands)]
		var out []sviol
		refSchema(map[string]any{"type": s["type"]}, c, "", &out)
		if len(out) > 0 {
			return c
		}
	}
	return nil
}

// opportunities walks schema and instance together.
func opportunities(rng *rand.Rand, s any, v any, set func(any), del func(), topKey string, prefix string, out *[]opportunity) {
	m, isMap := s.(map[string]any)
	if !isMap {
		return
	}
	add := func(kw string, f func()) { *out = append(*out, opportunity{prefix + kw, topKey, f}) }
	if set != nil {
		if _, has := m["type"]; has {
			if c := otherType(rng, m); c != nil {
				add("type", func() { set(c) })
			}
		}
		if _, has := m["enum"]; has {
			add("enum", func() { set("not-in-enum") })
		}
		if n, isNum := num(v); isNum {
			_ = n
			if lo, has := num(m["minimum"]); has {
				add("minimum", func() { set(lo - 1) })
			}
			if hi, has := num(m["maximum"]); has {
				add("maximum", func() { set(hi + 1) })
			}
		}
		if _, isStr := v.(string); isStr {
			if lo, has := num(m["minLength"]); has && lo > 0 {
				add("minLength", func() { set(strings.Repeat("a", int(lo)-1)) })
			}
			if hi, has := num(m["maxLength"]); has {
				add("maxLength", func() { set(strings.Repeat("a", int(hi)+1)) })
			}
			if _, has := m["pattern"]; has {
				add("pattern", func() { set("UPPER CASE!") })
			}
		}
	}
	if obj, isObj := v.(map[string]any); isObj {
		if r, has := m["required"].([]any); has {
			for _, x := range r {
				k := x.(string)
				if _, present := obj[k]; present {
					tk := topKey
					if tk == "" {
						tk = k
					}
					*out = append(*out, opportunity{prefix + "required", tk, func() { delete(obj, k) }})
				}
			}
		}
		props, _ := m["properties"].(map[string]any)
		if ap, has := m["additionalProperties"]; has && ap != true {
			tk := topKey
			if tk == "" {
				tk = "zzunknown"
			}
			if ap == false {
				*out = append(*out, opportunity{prefix + "additionalProperties", tk, func() { obj["zzunknown"] = "surprise" }})
			} else if aps, isSchema := ap.(map[string]any); isSchema {
				if c := otherType(rng, aps); c != nil {
					*out = append(*out, opportunity{prefix + "additionalProperties>type", tk, func() { obj["zzunknown"] = c }})
				}
			}
		}
		var keys []string
		for k := range obj {
			keys = append(keys, k)
		}
		sort.Strings(keys)
		for _, k := range keys {
			k := k
			tk := topKey
			if tk == "" {
				tk = k
			}
			if ps, has := props[k]; has {
				opportunities(rng, ps, obj[k], func(x any) { obj[k] = x }, nil, tk, prefix, out)
			} else if aps, has := m["additionalProperties"].(map[string]any); has {
				opportunities(rng, aps, obj[k], func(x any) { obj[k] = x }, nil, tk, prefix+"additionalProperties>", out)
			}
		}
	}
	if arr, isArr := v.([]any); isArr && set != nil {
		if it, has := m["items"].(map[string]any); has {
			if c := otherType(rng, it); c != nil {
				add("items>type", func() { set(append(append([]any{}, arr...), c)) })
			}
			for i := range arr {
				i := i
				opportunities(rng, it, arr[i], func(x any) { arr[i] = x }, nil, topKey, prefix+"items>", out)
			}
		}
	}
}

// ---------------------------------------------------------------- pair generation

func newPair(rng *rand.Rand) *pair {
	p := &pair{User: map[string]any{}}
	root := &chartSpec{Name: "rootc", Display: "rootc", Level: "root", Enabled: true}
	p.Charts = []*chartSpec{root}
	topo := rng.Intn(100)
	var kid, grand, sib *chartSpec
	if topo >= 8 {
		kid = &chartSpec{Name: "kidc", Display: "kidc", Level: "child", Parent: root, Path: []string{"kidc"}}
		root.Children = append(root.Children, kid)
		p.Charts = append(p.Charts, kid)
	}
	if topo >= 35 {
		grand = &chartSpec{Name: "grandc", Display: "grandc", Level: "grandchild", Parent: kid, Path: []string{"kidc", "grandc"}}
		kid.Children = append(kid.Children, grand)
		p.Charts = append(p.Charts, grand)
	}
	if topo >= 60 {
		sib = &chartSpec{Name: "sibc", Display: "sibc", Level: "sibling", Parent: root}
		if chance(rng, 50) {
			sib.Display = "sibx" // alias
		}
		sib.Path = []string{sib.Display}
		root.Children = append(root.Children, sib)
		p.Charts = append(p.Charts, sib)
	}
	// namesakes: DIFFERENT charts (own schema, own values) that helm knows under the same name
	// at different places of the tree
	if sib != nil {
		var twin, other *chartSpec
		switch x := rng.Intn(100); {
		case x < 35 && grand != nil:
			// the sibling's child is called like the child's child (two "grandc")
			twin, other = &chartSpec{Name: "grandc", Display: "grandc", Level: "nephew", Parent: sib}, grand
		case x < 55:
			// a grandchild is called like a child of the root (root/sibc and root/kidc/sibc)
			if sib.Display == "sibc" {
				twin, other = &chartSpec{Name: "sibc", Display: "sibc", Level: "grandchild2", Parent: kid}, sib
			}
		case x < 75:
			// a grandchild's real name equals the alias of another chart (root/sibc as sibx, root/kidc/sibx)
			sib.Display, sib.Path = "sibx", []string{"sibx"}
			twin, other = &chartSpec{Name: "sibx", Display: "sibx", Level: "grandchild2", Parent: kid}, sib
		}
		if twin != nil {
			twin.Path = append(append([]string{}, twin.Parent.Path...), twin.Display)
			twin.Parent.Children = append(twin.Parent.Children, twin)
			p.Charts = append(p.Charts, twin)
			twin.Twin, other.Twin = true, true
		}
	}
	p.Umbrella = len(p.Charts) > 1 && chance(rng, 8)

	// schemas
	anySchema := false
	for _, c := range p.Charts {
		if chance(rng, 70) || c.Twin && chance(rng, 80) {
			perm := map[string]any{"global": map[string]any{"type": "object"}}
			if c.Level == "root" {
				perm["tags"] = map[string]any{"type": "object"}
			} else {
				perm["enabled"] = map[string]any{"type": "boolean"}
			}
			for _, ch := range c.Children {
				perm[ch.Display] = map[string]any{"type": "object"}
			}
			c.Schema = objSchema(rng, topVocab, 0, perm)
			c.Draft = []string{"", "", "draft-07", "2020-12"}[rng.Intn(4)]
			anySchema = true
		}
	}
	if !anySchema {
		c := p.Charts[len(p.Charts)-1]
		c.Schema = objSchema(rng, topVocab, 0, map[string]any{"global": map[string]any{"type": "object"}, "enabled": map[string]any{"type": "boolean"}, "tags": map[string]any{"type": "object"}})
	}

	// instances
	switch x := rng.Intn(100); {
	case x < 30:
		p.Mode = "satisfy"
	case x < 80:
		p.Mode = "violate-one"
	default:
		p.Mode = "random"
	}
	for _, c := range p.Charts {
		c.Defaults = map[string]any{}
		if c.Schema != nil && p.Mode != "random" {
			c.Inst, _ = satisfy(rng, c.Schema, "").(map[string]any)
		}
		if c.Inst == nil {
			c.Inst = map[string]any{}
			for _, ve := range topVocab {
				if chance(rng, 50) {
					if p.Mode == "random" && chance(rng, 40) {
						c.Inst[ve.key] = natural(rng, topVocab[rng.Intn(len(topVocab))].kind)
					} else {
						c.Inst[ve.key] = natural(rng, ve.kind)
					}
				}
			}
		}
	}

	// enabled flags: every subchart gets its switch from root values.yaml and/or user values
	for _, c := range p.Charts[1:] {
		c.Enabled = !chance(rng, 18)
	}
	for _, c := range p.Charts[1:] { // parents come first in p.Charts
		if !c.Parent.Enabled {
			c.Enabled = false
		}
	}

	// plant one violation
	plantedKey := ""
	var target *chartSpec
	if p.Mode == "violate-one" {
		var withSchema []*chartSpec
		for _, c := range p.Charts {
			if c.Schema != nil {
				withSchema = append(withSchema, c)
				if c.Level != "root" { // bias towards subcharts
					withSchema = append(withSchema, c)
				}
			}
		}
		target = withSchema[rng.Intn(len(withSchema))]
		var ops []opportunity
		opportunities(rng, target.Schema, target.Inst, nil, nil, "", "", &ops)
		if len(ops) > 0 {
			o := ops[rng.Intn(len(ops))]
			o.apply()
			plantedKey = o.topKey
			p.Planted = target.Level + "/" + o.keyword
		} else {
			p.Mode = "satisfy"
		}
	}

	// distribute every chart's instance over the value sources
	for _, c := range p.Charts {
		var keys []string
		for k := range c.Inst {
			keys = append(keys, k)
		}
		sort.Strings(keys)
		nsrc := len(c.Path) + 2 // 0 = own values.yaml, 1..len(Path) = ancestors' values.yaml (nearest first), last = user
		for _, k := range keys {
			src := p.fixSrc(c, rng.Intn(nsrc))
			p.put(c, src, k, c.Inst[k])
			if c == target && k == plantedKey {
				p.PlantSrc = p.srcName(c, src)
			}
			// decoy at a lower-precedence source (overridden, must not matter)
			if _, isMap := c.Inst[k].(map[string]any); !isMap && src > 0 && chance(rng, 30) {
				if d := rng.Intn(src); p.fixSrc(c, d) == d {
					dec := natural(rng, topVocab[rng.Intn(7)].kind)
					if _, decMap := dec.(map[string]any); !decMap {
						p.put(c, d, k, dec)
					}
				}
			}
		}
		// a required key deleted by an explicit user null on top of a default
		if c == target && strings.HasSuffix(p.Planted, "/required") && !(p.Umbrella && c.Level == "root") && chance(rng, 35) {
			if _, still := c.Inst[plantedKey]; !still {
				p.put(c, 0, plantedKey, natural(rng, kindOf(plantedKey)))
				p.put(c, nsrc-1, plantedKey, nil)
				p.PlantSrc = "user-null-over-default"
				p.Nulls = true
			}
		}
	}
	if p.Planted != "" && p.PlantSrc == "" {
		p.PlantSrc = "absent-everywhere" // a required key supplied by no source
	}

	// enable switches
	for _, c := range p.Charts[1:] {
		final := c.Enabled
		if !c.Parent.Enabled {
			final = chance(rng, 50) // irrelevant: the parent is off
		}
		setFlag := func(where map[string]any, val bool) {
			if c.Level == "sibling" {
				sub(where, []string{"tags"})["extras"] = val
			} else {
				sub(where, c.Path)["enabled"] = val
			}
		}
		rootDefaults := root.Defaults
		if p.Umbrella {
			rootDefaults = p.User
		}
		switch x := rng.Intn(100); {
		case x < 30 && final:
			// no switch anywhere: default is enabled
		case x < 60:
			setFlag(rootDefaults, final)
		case x < 80:
			setFlag(p.User, final)
		default:
			setFlag(rootDefaults, !final)
			setFlag(p.User, final)
		}
	}
	return p
}

// sub walks/creates nested maps.
func sub(m map[string]any, path []string) map[string]any {
	for _, k := range path {
		n, isMap := m[k].(map[string]any)
		if !isMap {
			n = map[string]any{}
			m[k] = n
		}
		m = n
	}
	return m
}

// fixSrc redirects a source that does not exist (the umbrella root has no values.yaml) to user values.
func (p *pair) fixSrc(c *chartSpec, src int) int {
	if p.Umbrella && src == len(c.Path) {
		return len(c.Path) + 1
	}
	return src
}

// put stores chart c's top-level key at source index src.
func (p *pair) put(c *chartSpec, src int, key string, val any) {
	n := len(c.Path)
	switch {
	case src == 0:
		c.Defaults[key] = val
	case src == n+1:
		sub(p.User, c.Path)[key] = val
	default:
		// ancestor number src (1 = parent ... n = root)
		anc := c
		for i := 0; i < src; i++ {
			anc = anc.Parent
		}
		sub(anc.Defaults, c.Path[len(anc.Path):])[key] = val
	}
}

func (p *pair) srcName(c *chartSpec, src int) string {
	n := len(c.Path)
	switch {
	case src == 0:
		return "own-default"
	case src == n+1:
		return "user"
	case src == n:
		return "root-values-section"
	}
	return "parent-values-section"
}

// ---------------------------------------------------------------- rendering the pair into chart files

func jsonText(v any) string {
	b, err := json.MarshalIndent(v, "", "  ")
	if err != nil {
		panic(err)
	}
	return string(b) + "\n"
}

func (p *pair) files() gen.Files {
	f := gen.Files{}
	var emit func(c *chartSpec, dir string)
	emit = func(c *chartSpec, dir string) {
		y := fmt.Sprintf("apiVersion: v2\nname: %s\nversion: 0.1.0\n", c.Name)
		if len(c.Children) > 0 {
			y += "dependencies:\n"
			for _, ch := range c.Children {
				y += fmt.Sprintf("- name: %s\n  version: 0.1.0\n", ch.Name)
				if ch.Display != ch.Name {
					y += fmt.Sprintf("  alias: %s\n", ch.Display)
				}
				if ch.Level == "sibling" {
					y += "  tags: [extras]\n"
				} else {
					y += fmt.Sprintf("  condition: %s.enabled\n", ch.Display)
				}
			}
		}
		f[dir+"Chart.yaml"] = y
		umbrellaRoot := p.Umbrella && c.Level == "root"
		if !umbrellaRoot {
			f[dir+"values.yaml"] = jsonText(c.Defaults) // JSON is YAML
			f[dir+"templates/cm.yaml"] = fmt.Sprintf("apiVersion: v1\nkind: ConfigMap\nmetadata:\n  name: {{ .Release.Name }}-%s\ndata:\n  vals: {{ toJson .Values | quote }}\n", c.id())
		}
		if c.Schema != nil {
			s := map[string]any{}
			for k, v := range c.Schema {
				s[k] = v
			}
			switch c.Draft {
			case "draft-07":
				s["$schema"] = "http://json-schema.org/draft-07/schema#"
			case "2020-12":
				s["$schema"] = "https://json-schema.org/draft/2020-12/schema"
			}
			f[dir+"values.schema.json"] = jsonText(s)
		}
		if c.CRDs {
			f[dir+"crds/"+c.Name+".yaml"] = fmt.Sprintf(crdYAML, c.id(), strings.ReplaceAll(c.id(), "-", ""), c.id())
		}
		for _, ch := range c.Children {
			emit(ch, dir+"charts/"+ch.Name+"/")
		}
	}
	emit(p.root(), "")
	return f
}

// userVals returns a fresh copy of the user-supplied values; integers arrive as int64 (like
// --set) or float64 (like a values file), chosen per pair.
func (p *pair) userVals(asFloat bool) map[string]any {
	var conv func(v any) any
	conv = func(v any) any {
		switch t := v.(type) {
		case map[string]any:
			o := map[string]any{}
			for k, x := range t {
				o[k] = conv(x)
			}
			return o
		case []any:
			o := make([]any, len(t))
			for i := range t {
				o[i] = conv(t[i])
			}
			return o
		case int:
			if asFloat {
				return float64(t)
			}
			return int64(t)
		}
		return v
	}
	return conv(p.User).(map[string]any)
}

// baseFiles is the schema-less chart a release is installed from before the upgrade under test.
func baseFiles() gen.Files {
	return gen.Files{
		"Chart.yaml":        "apiVersion: v2\nname: rootc\nversion: 0.0.1\n",
		"values.yaml":       "seed: 1\n",
		"templates/cm.yaml": "apiVersion: v1\nkind: ConfigMap\nmetadata:\n  name: {{ .Release.Name }}-base\ndata:\n  seed: {{ .Values.seed | quote }}\n",
	}
}

const crdYAML = `apiVersion: apiextensions.k8s.io/v1
kind: CustomResourceDefinition
metadata:
  name: %ss.c14.example.com
spec:
  group: c14.example.com
  names:
    kind: %sKind
    plural: %ss
  scope: Namespaced
  versions:
  - name: v1
    served: true
    storage: true
    schema:
      openAPIV3Schema:
        type: object
        x-kubernetes-preserve-unknown-fields: true
`

// assignCRDs gives a share of the pairs crds/ directories (root and subcharts, enabled or not).
// It draws from its own generator so that the rest of the pair does not depend on it.
func (p *pair) assignCRDs(rng *rand.Rand) {
	if !chance(rng, 35) {
		return
	}
	for _, c := range p.Charts {
		c.CRDs = chance(rng, 60)
	}
}
