package c14

import (
	"encoding/json"
	"math"
	"reflect"
	"regexp"
	"sort"
	"unicode/utf8"
)

// refSchema is the independent evaluator for exactly the generated keyword family:
// type (seven names, single or list), enum, minimum, maximum, minLength, maxLength, pattern,
// required, properties, additionalProperties (bool | schema), items (schema), boolean schemas.
// Semantics are those shared by JSON-Schema draft-07 and 2020-12:
//   - "number" admits every JSON number, "integer" every number with zero fractional part;
//   - minimum/maximum constrain numbers only; *Length/pattern strings only (length in code points,
//     pattern is an unanchored search); required/properties/additionalProperties objects only;
//     items arrays only; enum compares numbers by value.

type sviol struct {
	Path    string // JSON-pointer-like location in the instance
	Keyword string
}

func num(v any) (float64, bool) {
	switch n := v.(type) {
	case float64:
		return n, true
	case float32:
		return float64(n), true
	case int:
		return float64(n), true
	case int64:
		return float64(n), true
	case int32:
		return float64(n), true
	case json.Number:
		f, err := n.Float64()
		return f, err == nil
	}
	return 0, false
}

func typeIs(name string, v any) bool {
	n, isNum := num(v)
	switch name {
	case "null":
		return v == nil
	case "boolean":
		_, ok := v.(bool)
		return ok
	case "string":
		_, ok := v.(string)
		return ok
	case "number":
		return isNum
	case "integer":
		return isNum && n == math.Trunc(n)
	case "object":
		_, ok := v.(map[string]any)
		return ok
	case "array":
		_, ok := v.([]any)
		return ok
	}
	return false
}

func jsonEqual(a, b any) bool {
	if x, ok := num(a); ok {
		y, ok2 := num(b)
		return ok2 && x == y
	}
	if _, ok := num(b); ok {
		return false
	}
	return reflect.DeepEqual(a, b)
}

// relabel prefixes the keywords of the violations found by f with the applicator that led there.
func relabel(out *[]sviol, via string, f func()) {
	n := len(*out)
	f()
	for i := n; i < len(*out); i++ {
		if (*out)[i].Keyword != via {
			(*out)[i].Keyword = via + ">" + (*out)[i].Keyword
		}
	}
}

func refSchema(s any, v any, path string, out *[]sviol) {
	add := func(kw string) { *out = append(*out, sviol{path, kw}) }
	if b, ok := s.(bool); ok {
		if !b {
			add("additionalProperties") // the only place a false schema is generated
		}
		return
	}
	m, _ := s.(map[string]any)
	if t, ok := m["type"]; ok {
		names, _ := t.([]any)
		if one, ok := t.(string); ok {
			names = []any{one}
		}
		hit := false
		for _, n := range names {
			hit = hit || typeIs(n.(string), v)
		}
		if !hit {
			add("type")
		}
	}
	if e, ok := m["enum"].([]any); ok {
		hit := false
		for _, x := range e {
			hit = hit || jsonEqual(x, v)
		}
		if !hit {
			add("enum")
		}
	}
	if n, ok := num(v); ok {
		if lo, ok := num(m["minimum"]); ok && n < lo {
			add("minimum")
		}
		if hi, ok := num(m["maximum"]); ok && n > hi {
			add("maximum")
		}
	}
	if str, ok := v.(string); ok {
		l := float64(utf8.RuneCountInString(str))
		if lo, ok := num(m["minLength"]); ok && l < lo {
			add("minLength")
		}
		if hi, ok := num(m["maxLength"]); ok && l > hi {
			add("maxLength")
		}
		if p, ok := m["pattern"].(string); ok && !regexp.MustCompile(p).MatchString(str) {
			add("pattern")
		}
	}
	if obj, ok := v.(map[string]any); ok {
		if req, ok := m["required"].([]any); ok {
			for _, r := range req {
				if _, present := obj[r.(string)]; !present {
					add("required")
					break
				}
			}
		}
		props, _ := m["properties"].(map[string]any)
		keys := make([]string, 0, len(obj))
		for k := range obj {
			keys = append(keys, k)
		}
		sort.Strings(keys)
		for _, k := range keys {
			if ps, ok := props[k]; ok {
				refSchema(ps, obj[k], path+"/"+k, out)
			} else if ap, ok := m["additionalProperties"]; ok {
				relabel(out, "additionalProperties", func() { refSchema(ap, obj[k], path+"/"+k, out) })
			}
		}
	}
	if arr, ok := v.([]any); ok {
		if it, ok := m["items"]; ok {
			for i := range arr {
				relabel(out, "items", func() { refSchema(it, arr[i], path+"/#", out) })
			}
		}
	}
}
