// Package sim is an in-memory Kubernetes API server reachable through an http.RoundTripper.
// It sits behind the real client-go / kube.Client stack. Every request is applied to an object
// store and logged with a global sequence number; faults, cuts (process death), gates
// (schedule control) and delays are injected here.
package sim

import (
	"bytes"
	"encoding/json"
	"errors"
	"fmt"
	"io"
	"net/http"
	"sort"
	"strings"
	"sync"
	"sync/atomic"
	"time"

	jsonpatch "github.com/evanphx/json-patch"
	"k8s.io/apimachinery/pkg/labels"
	"k8s.io/apimachinery/pkg/runtime/schema"
	"k8s.io/apimachinery/pkg/util/strategicpatch"
	"k8s.io/client-go/kubernetes/scheme"
)

type Res struct {
	Group, Version, Kind, Plural string
	Namespaced                  bool
}

func (r Res) GV() string {
	if r.Group == "" {
		return r.Version
	}
	return r.Group + "/" + r.Version
}

// Resources is the served resource table.
var Resources = []Res{
	{"", "v1", "ConfigMap", "configmaps", true},
	{"", "v1", "Secret", "secrets", true},
	{"", "v1", "Service", "services", true},
	{"", "v1", "ServiceAccount", "serviceaccounts", true},
	{"", "v1", "Pod", "pods", true},
	{"", "v1", "PersistentVolumeClaim", "persistentvolumeclaims", true},
	{"", "v1", "ResourceQuota", "resourcequotas", true},
	{"", "v1", "LimitRange", "limitranges", true},
	{"", "v1", "ReplicationController", "replicationcontrollers", true},
	{"", "v1", "Namespace", "namespaces", false},
	{"", "v1", "PersistentVolume", "persistentvolumes", false},
	{"apps", "v1", "Deployment", "deployments", true},
	{"apps", "v1", "StatefulSet", "statefulsets", true},
	{"apps", "v1", "DaemonSet", "daemonsets", true},
	{"apps", "v1", "ReplicaSet", "replicasets", true},
	{"batch", "v1", "Job", "jobs", true},
	{"batch", "v1", "CronJob", "cronjobs", true},
	{"rbac.authorization.k8s.io", "v1", "Role", "roles", true},
	{"rbac.authorization.k8s.io", "v1", "RoleBinding", "rolebindings", true},
	{"rbac.authorization.k8s.io", "v1", "ClusterRole", "clusterroles", false},
	{"rbac.authorization.k8s.io", "v1", "ClusterRoleBinding", "clusterrolebindings", false},
	{"networking.k8s.io", "v1", "Ingress", "ingresses", true},
	{"networking.k8s.io", "v1", "NetworkPolicy", "networkpolicies", true},
	{"networking.k8s.io", "v1", "IngressClass", "ingressclasses", false},
	{"policy", "v1", "PodDisruptionBudget", "poddisruptionbudgets", true},
	{"autoscaling", "v2", "HorizontalPodAutoscaler", "horizontalpodautoscalers", true},
	{"storage.k8s.io", "v1", "StorageClass", "storageclasses", false},
	{"scheduling.k8s.io", "v1", "PriorityClass", "priorityclasses", false},
	{"apiextensions.k8s.io", "v1", "CustomResourceDefinition", "customresourcedefinitions", false},
	{"example.com", "v1", "Widget", "widgets", true},
	{"example.com", "v1", "Gadget", "gadgets", true},
	// second served versions of existing kinds (same storage: the store key has no version),
	// for charts that move a resource to another API version of the same group
	{"example.com", "v2", "Widget", "widgets", true},
	{"autoscaling", "v1", "HorizontalPodAutoscaler", "horizontalpodautoscalers", true},
}

func FindKind(apiVersion, kind string) *Res {
	for i := range Resources {
		if Resources[i].GV() == apiVersion && Resources[i].Kind == kind {
			return &Resources[i]
		}
	}
	return nil
}

// Req is the parsed view of one request.
type Req struct {
	Agent       string
	Method      string
	Path        string
	Query       string
	ContentType string
	Res         *Res
	NS, Name    string
	Class       string // discovery | storage | read | mutation
	N           int    // 1-based index among the agent's non-discovery requests
	Body        []byte `json:"-"`
	// PreOwner is filled by the server for PATCH/PUT/DELETE on an existing object: the helm
	// ownership metadata the object carried BEFORE the request was applied, as
	// "managed-by|release-name|release-namespace" ("-" = the object did not exist).
	PreOwner string
}

// Key returns the store key addressed by the request ("" for lists / discovery).
func (r *Req) Key() string {
	if r.Res == nil || r.Name == "" {
		return ""
	}
	return Key(r.Res.Group, r.Res.Plural, r.NS, r.Name)
}

func Key(group, plural, ns, name string) string { return group + "/" + plural + "/" + ns + "/" + name }

// Event is one log entry. Two per request (recv, done) plus notes from other monitors.
type Event struct {
	Seq      int64
	Phase    string // recv | done | note
	Agent    string
	Method   string
	Path     string
	Query    string
	Class    string
	Kind     string
	NS, Name string
	N        int
	Code     int
	Injected bool   // response was produced by a fault plan
	Cut      bool   // request was dropped by a cut plan (not applied)
	PreOwner string // see Req.PreOwner (done events of PATCH/PUT/DELETE)
	Note     string // for Phase == note
	What     string   // note kind: Wait | WaitWithJobs | WatchUntilReady | WaitForDelete | oob | ...
	Names    []string // resource names the note is about
	Err      string   // error text of a note (return events)
}

func (e Event) Key() string {
	return e.Kind + "/" + e.NS + "/" + e.Name
}

// Fault rejects matching requests.
type Fault struct {
	Match func(*Req) bool
	Nth   int // fire on the Nth matching request (1-based); 0 = every match
	Code  int
	Once  bool // disarm after firing
	hits  int
	fired int
}

func (f *Fault) Fired() int { return f.fired }

type Server struct {
	mu     sync.Mutex
	objs   map[string]map[string]any
	rv     int64
	clock  atomic.Int64
	log    []Event
	agentN map[string]int

	faults []*Fault
	cuts   map[string]int // agent -> last call index allowed
	// Gate, if set, is called (outside the store lock) for every non-discovery request and may block.
	Gate func(*Req)
	// Delay, if set, returns a sleep performed outside the store lock before handling.
	Delay func(*Req) time.Duration
}

func New() *Server {
	return &Server{objs: map[string]map[string]any{}, agentN: map[string]int{}, cuts: map[string]int{}}
}

// Tick hands out the next global sequence number (shared with other monitors).
func (s *Server) Tick() int64 { return s.clock.Add(1) }

// Note appends a non-request event (waiter calls, out-of-band edits ...) to the log.
func (s *Server) Note(agent, note string) int64 {
	seq := s.Tick()
	s.mu.Lock()
	s.log = append(s.log, Event{Seq: seq, Phase: "note", Agent: agent, Note: note})
	s.mu.Unlock()
	return seq
}

// NoteEvent appends a structured non-request event and returns its sequence number.
func (s *Server) NoteEvent(e Event) int64 {
	e.Seq = s.Tick()
	e.Phase = "note"
	s.mu.Lock()
	s.log = append(s.log, e)
	s.mu.Unlock()
	return e.Seq
}

// External runs a non-HTTP call (memory storage driver) through the same numbering, cut, gate,
// delay, fault and logging pipeline as HTTP requests. apply executes the real call and returns
// an HTTP-like code for the log. injected is true when a fault plan rejected the call (apply
// was not run); err is ErrCut when the call was dropped by a cut plan.
func (s *Server) External(r *Req, apply func() int) (injected bool, err error) {
	s.mu.Lock()
	s.agentN[r.Agent]++
	r.N = s.agentN[r.Agent]
	limit, cut := s.cuts[r.Agent]
	s.mu.Unlock()
	if cut && r.N > limit {
		s.record(s.event(r, "done", 0, false, true))
		return false, ErrCut
	}
	if s.Gate != nil {
		s.Gate(r)
	}
	if s.Delay != nil {
		if d := s.Delay(r); d > 0 {
			time.Sleep(d)
		}
	}
	s.record(s.event(r, "recv", 0, false, false))
	s.mu.Lock()
	for _, f := range s.faults {
		if f.Code == 0 || (f.Once && f.fired > 0) || !f.Match(r) {
			continue
		}
		f.hits++
		if f.Nth == 0 || f.hits == f.Nth {
			f.fired++
			s.mu.Unlock()
			s.record(s.event(r, "done", f.Code, true, false))
			return true, nil
		}
	}
	s.mu.Unlock()
	code := apply()
	s.record(s.event(r, "done", code, false, false))
	return false, nil
}

func (s *Server) AddFault(f *Fault) *Fault {
	s.mu.Lock()
	s.faults = append(s.faults, f)
	s.mu.Unlock()
	return f
}
func (s *Server) ClearFaults() {
	s.mu.Lock()
	s.faults = nil
	s.mu.Unlock()
}

// CutAfter makes every non-discovery request of agent with index > n fail at the transport
// level without being applied (process death after call n).
func (s *Server) CutAfter(agent string, n int) {
	s.mu.Lock()
	s.cuts[agent] = n
	s.mu.Unlock()
}

func (s *Server) Log() []Event {
	s.mu.Lock()
	defer s.mu.Unlock()
	out := append([]Event(nil), s.log...)
	sort.Slice(out, func(i, j int) bool { return out[i].Seq < out[j].Seq })
	return out
}

// LogFor returns the done-events (and notes) of one agent.
func (s *Server) Done(agent string) []Event {
	var out []Event
	for _, e := range s.Log() {
		if e.Agent == agent && e.Phase == "done" {
			out = append(out, e)
		}
	}
	return out
}

func (s *Server) Keys() []string {
	s.mu.Lock()
	defer s.mu.Unlock()
	ks := make([]string, 0, len(s.objs))
	for k := range s.objs {
		ks = append(ks, k)
	}
	sort.Strings(ks)
	return ks
}

func deepCopy(o map[string]any) map[string]any {
	b, _ := json.Marshal(o)
	var out map[string]any
	json.Unmarshal(b, &out)
	return out
}

// Get returns a deep copy of the stored object or nil.
func (s *Server) Get(key string) map[string]any {
	s.mu.Lock()
	defer s.mu.Unlock()
	o, ok := s.objs[key]
	if !ok {
		return nil
	}
	return deepCopy(o)
}

// Snapshot returns key -> canonical JSON of every object.
func (s *Server) Snapshot() map[string]string {
	s.mu.Lock()
	defer s.mu.Unlock()
	out := make(map[string]string, len(s.objs))
	for k, o := range s.objs {
		b, _ := json.Marshal(o)
		out[k] = string(b)
	}
	return out
}

// Put stores an object out of band (no request logged). apiVersion/kind/metadata.name must be set.
func (s *Server) Put(o map[string]any) (string, error) {
	av, _ := o["apiVersion"].(string)
	kind, _ := o["kind"].(string)
	r := FindKind(av, kind)
	if r == nil {
		return "", fmt.Errorf("unknown kind %s/%s", av, kind)
	}
	md, _ := o["metadata"].(map[string]any)
	if md == nil {
		return "", errors.New("no metadata")
	}
	name, _ := md["name"].(string)
	ns, _ := md["namespace"].(string)
	if !r.Namespaced {
		ns = ""
	}
	s.mu.Lock()
	defer s.mu.Unlock()
	s.rv++
	o = deepCopy(o)
	md = o["metadata"].(map[string]any)
	md["resourceVersion"] = fmt.Sprint(s.rv)
	if _, ok := md["uid"]; !ok {
		md["uid"] = fmt.Sprintf("uid-%d", s.rv)
	}
	k := Key(r.Group, r.Plural, ns, name)
	s.objs[k] = o
	return k, nil
}

// Edit applies f to a deep copy of the stored object out of band and stores the result.
func (s *Server) Edit(key string, f func(o map[string]any)) bool {
	s.mu.Lock()
	defer s.mu.Unlock()
	o, ok := s.objs[key]
	if !ok {
		return false
	}
	o = deepCopy(o)
	f(o)
	s.rv++
	o["metadata"].(map[string]any)["resourceVersion"] = fmt.Sprint(s.rv)
	s.objs[key] = o
	return true
}

// Remove deletes an object out of band.
func (s *Server) Remove(key string) bool {
	s.mu.Lock()
	defer s.mu.Unlock()
	_, ok := s.objs[key]
	delete(s.objs, key)
	return ok
}

func (s *Server) record(e Event) {
	s.mu.Lock()
	s.log = append(s.log, e)
	s.mu.Unlock()
}

func isDiscovery(p string) bool {
	if p == "/version" || p == "/api" || p == "/apis" || strings.HasPrefix(p, "/openapi") {
		return true
	}
	parts := strings.Split(strings.Trim(p, "/"), "/")
	if parts[0] == "api" && len(parts) == 2 {
		return true
	}
	if parts[0] == "apis" && len(parts) <= 3 {
		return true
	}
	return false
}

func (s *Server) parse(req *http.Request, body []byte) *Req {
	r := &Req{Agent: req.UserAgent(), Method: req.Method, Path: req.URL.Path, Query: req.URL.RawQuery, ContentType: req.Header.Get("Content-Type"), Body: body}
	if isDiscovery(r.Path) {
		r.Class = "discovery"
		return r
	}
	parts := strings.Split(strings.Trim(r.Path, "/"), "/")
	var group, version string
	var rest []string
	if parts[0] == "api" {
		version, rest = parts[1], parts[2:]
	} else if parts[0] == "apis" {
		group, version, rest = parts[1], parts[2], parts[3:]
	}
	var plural string
	if len(rest) >= 3 && rest[0] == "namespaces" {
		r.NS, plural = rest[1], rest[2]
		if len(rest) >= 4 {
			r.Name = rest[3]
		}
	} else if len(rest) >= 1 {
		plural = rest[0]
		if len(rest) >= 2 {
			r.Name = rest[1]
		}
	}
	for i := range Resources {
		if Resources[i].Group == group && Resources[i].Version == version && Resources[i].Plural == plural {
			r.Res = &Resources[i]
		}
	}
	if r.Method == "POST" && r.Name == "" {
		var o struct {
			Metadata struct {
				Name string `json:"name"`
			} `json:"metadata"`
		}
		json.Unmarshal(body, &o)
		r.Name = o.Metadata.Name
	}
	storage := false
	if r.Res != nil && (r.Res.Plural == "secrets" || r.Res.Plural == "configmaps") && r.Res.Group == "" {
		if strings.HasPrefix(r.Name, "sh.helm.release.v1.") {
			storage = true
		}
		if r.Name == "" && strings.Contains(req.URL.Query().Get("labelSelector"), "owner") {
			storage = true
		}
	}
	switch {
	case storage:
		r.Class = "storage"
	case r.Method == "GET":
		r.Class = "read"
	default:
		r.Class = "mutation"
	}
	return r
}

// ErrCut is the transport error returned for requests dropped by a cut plan.
var ErrCut = errors.New("simulated process death: request not sent")

// RoundTrip implements http.RoundTripper.
func (s *Server) RoundTrip(req *http.Request) (*http.Response, error) {
	var body []byte
	if req.Body != nil {
		body, _ = io.ReadAll(req.Body)
		req.Body.Close()
	}
	r := s.parse(req, body)
	if r.Class != "discovery" {
		s.mu.Lock()
		s.agentN[r.Agent]++
		r.N = s.agentN[r.Agent]
		limit, cut := s.cuts[r.Agent]
		s.mu.Unlock()
		if cut && r.N > limit {
			s.record(s.event(r, "done", 0, false, true))
			return nil, ErrCut
		}
		if s.Gate != nil {
			s.Gate(r)
		}
		if s.Delay != nil {
			if d := s.Delay(r); d > 0 {
				time.Sleep(d)
			}
		}
	}
	s.record(s.event(r, "recv", 0, false, false))
	code, out, injected := s.handle(req, r)
	s.record(s.event(r, "done", code, injected, false))
	h := http.Header{}
	h.Set("Content-Type", "application/json")
	return &http.Response{StatusCode: code, Status: fmt.Sprintf("%d %s", code, http.StatusText(code)), Header: h,
		Body: io.NopCloser(bytes.NewReader(out)), Request: req, Proto: "HTTP/1.1", ProtoMajor: 1, ProtoMinor: 1, ContentLength: int64(len(out))}, nil
}

func (s *Server) event(r *Req, phase string, code int, injected, cut bool) Event {
	e := Event{Seq: s.Tick(), Phase: phase, Agent: r.Agent, Method: r.Method, Path: r.Path, Query: r.Query, Class: r.Class, NS: r.NS, Name: r.Name, N: r.N, Code: code, Injected: injected, Cut: cut}
	if r.Res != nil {
		e.Kind = r.Res.Kind
	}
	if phase == "done" {
		e.PreOwner = r.PreOwner
	}
	return e
}

func status(code int, reason, msg string) map[string]any {
	return map[string]any{"kind": "Status", "apiVersion": "v1", "status": "Failure", "code": code, "reason": reason, "message": msg, "details": map[string]any{}}
}

func apiResourceList(gv string) map[string]any {
	rs := []any{}
	for _, r := range Resources {
		if r.GV() != gv {
			continue
		}
		rs = append(rs, map[string]any{"name": r.Plural, "singularName": strings.ToLower(r.Kind), "namespaced": r.Namespaced, "kind": r.Kind,
			"verbs": []string{"create", "delete", "get", "list", "patch", "update", "watch"}})
	}
	return map[string]any{"kind": "APIResourceList", "apiVersion": "v1", "groupVersion": gv, "resources": rs}
}

func openapiDoc(gv string) map[string]any {
	paths := map[string]any{}
	for _, r := range Resources {
		if r.GV() != gv {
			continue
		}
		prefix := "/api/" + r.Version
		if r.Group != "" {
			prefix = "/apis/" + r.GV()
		}
		p := prefix + "/" + r.Plural + "/{name}"
		if r.Namespaced {
			p = prefix + "/namespaces/{namespace}/" + r.Plural + "/{name}"
		}
		paths[p] = map[string]any{
			"patch": map[string]any{
				"x-kubernetes-group-version-kind": map[string]any{"group": r.Group, "version": r.Version, "kind": r.Kind},
				"parameters": []any{
					map[string]any{"name": "fieldValidation", "in": "query", "schema": map[string]any{"type": "string"}},
				},
				"responses": map[string]any{},
			},
		}
	}
	return map[string]any{"openapi": "3.0.0", "info": map[string]any{"title": "sim", "version": "v1"}, "paths": paths}
}

func mustJSON(v any) []byte {
	b, err := json.Marshal(v)
	if err != nil {
		panic(err)
	}
	return b
}

func (s *Server) handle(req *http.Request, r *Req) (int, []byte, bool) {
	p := r.Path
	switch {
	case p == "/version":
		return 200, mustJSON(map[string]any{"major": "1", "minor": "32", "gitVersion": "v1.32.0"}), false
	case p == "/api":
		return 200, mustJSON(map[string]any{"kind": "APIVersions", "versions": []string{"v1"}}), false
	case p == "/apis":
		var order []string
		versions := map[string][]any{}
		for _, r := range Resources {
			if r.Group == "" {
				continue
			}
			if _, ok := versions[r.Group]; !ok {
				order = append(order, r.Group)
			}
			dup := false
			for _, v := range versions[r.Group] {
				if v.(map[string]any)["version"] == r.Version {
					dup = true
				}
			}
			if !dup {
				versions[r.Group] = append(versions[r.Group], map[string]any{"groupVersion": r.GV(), "version": r.Version})
			}
		}
		var groups []any
		for _, g := range order {
			groups = append(groups, map[string]any{"name": g, "versions": versions[g], "preferredVersion": versions[g][0]})
		}
		return 200, mustJSON(map[string]any{"kind": "APIGroupList", "apiVersion": "v1", "groups": groups}), false
	case p == "/openapi/v3":
		paths := map[string]any{}
		for _, r := range Resources {
			k := "api/" + r.Version
			if r.Group != "" {
				k = "apis/" + r.GV()
			}
			paths[k] = map[string]any{"serverRelativeURL": "/openapi/v3/" + k + "?hash=1"}
		}
		return 200, mustJSON(map[string]any{"paths": paths}), false
	case strings.HasPrefix(p, "/openapi/v3/"):
		k := strings.TrimPrefix(p, "/openapi/v3/")
		gv := strings.TrimPrefix(strings.TrimPrefix(k, "apis/"), "api/")
		return 200, mustJSON(openapiDoc(gv)), false
	case strings.HasPrefix(p, "/openapi/"):
		return 404, mustJSON(status(404, "NotFound", "no openapi v2")), false
	}
	if r.Class == "discovery" {
		parts := strings.Split(strings.Trim(p, "/"), "/")
		gv := parts[1]
		if parts[0] == "apis" {
			if len(parts) < 3 {
				return 404, mustJSON(status(404, "NotFound", "unknown path "+p)), false
			}
			gv = parts[1] + "/" + parts[2]
		}
		return 200, mustJSON(apiResourceList(gv)), false
	}
	if r.Res == nil {
		return 404, mustJSON(status(404, "NotFound", "the server could not find the requested resource")), false
	}
	s.mu.Lock()
	defer s.mu.Unlock()
	for _, f := range s.faults {
		if f.Code == 0 || (f.Once && f.fired > 0) || !f.Match(r) {
			continue
		}
		f.hits++
		if f.Nth == 0 || f.hits == f.Nth {
			f.fired++
			return f.Code, mustJSON(status(f.Code, faultReason(f.Code), "injected fault (simulated API server rejected the request)")), true
		}
	}
	code, out := s.apply(req, r)
	return code, mustJSON(out), false
}

// asVersion returns o with the apiVersion the request asked for (a shallow copy when it differs):
// all served versions of a kind share one stored object, as after conversion on a real server.
func asVersion(o map[string]any, apiVersion string) map[string]any {
	if o["apiVersion"] == apiVersion {
		return o
	}
	c := make(map[string]any, len(o))
	for k, v := range o {
		c[k] = v
	}
	c["apiVersion"] = apiVersion
	return c
}

// ownerOf renders the helm ownership metadata of an object: managed-by|release-name|release-namespace.
func ownerOf(o map[string]any) string {
	md, _ := o["metadata"].(map[string]any)
	get := func(m any, k string) string {
		mm, _ := m.(map[string]any)
		v, _ := mm[k].(string)
		return v
	}
	return get(md["labels"], "app.kubernetes.io/managed-by") + "|" + get(md["annotations"], "meta.helm.sh/release-name") + "|" + get(md["annotations"], "meta.helm.sh/release-namespace")
}

func faultReason(code int) string {
	switch code {
	case 403:
		return "Forbidden"
	case 409:
		return "Conflict"
	case 422:
		return "Invalid"
	}
	return "InternalError"
}

func (s *Server) apply(req *http.Request, r *Req) (int, any) {
	res := r.Res
	group, plural, ns := res.Group, res.Plural, r.NS
	if !res.Namespaced {
		ns = ""
	}
	key := func(n string) string { return Key(group, plural, ns, n) }
	apiVersion := res.GV()
	notFound := func(n string) (int, any) {
		return 404, status(404, "NotFound", fmt.Sprintf("%s %q not found", plural, n))
	}
	if r.Method == "PATCH" || r.Method == "PUT" || r.Method == "DELETE" {
		r.PreOwner = "-"
		if cur, ok := s.objs[key(r.Name)]; ok {
			r.PreOwner = ownerOf(cur)
		}
	}
	switch r.Method {
	case "GET":
		if r.Name == "" {
			sel := labels.Everything()
			q := req.URL.Query()
			if ls := q.Get("labelSelector"); ls != "" {
				var err error
				if sel, err = labels.Parse(ls); err != nil {
					return 400, status(400, "BadRequest", err.Error())
				}
			}
			nameSel := ""
			if fsel := q.Get("fieldSelector"); fsel != "" {
				if strings.HasPrefix(fsel, "metadata.name=") {
					nameSel = strings.TrimPrefix(fsel, "metadata.name=")
				}
			}
			if q.Get("watch") == "true" || q.Get("watch") == "1" {
				return 400, status(400, "BadRequest", "watch is not supported by the simulator")
			}
			var keys []string
			prefix := group + "/" + plural + "/"
			for k := range s.objs {
				if !strings.HasPrefix(k, prefix) {
					continue
				}
				if res.Namespaced && r.NS != "" && !strings.HasPrefix(k, prefix+ns+"/") {
					continue
				}
				keys = append(keys, k)
			}
			sort.Strings(keys)
			items := []any{}
			for _, k := range keys {
				o := s.objs[k]
				md, _ := o["metadata"].(map[string]any)
				if nameSel != "" && md["name"] != nameSel {
					continue
				}
				lb := labels.Set{}
				if l, ok := md["labels"].(map[string]any); ok {
					for lk, lv := range l {
						lb[lk] = fmt.Sprint(lv)
					}
				}
				if sel.Matches(lb) {
					items = append(items, asVersion(o, apiVersion))
				}
			}
			return 200, map[string]any{"kind": res.Kind + "List", "apiVersion": apiVersion, "metadata": map[string]any{"resourceVersion": fmt.Sprint(s.rv)}, "items": items}
		}
		o, ok := s.objs[key(r.Name)]
		if !ok {
			return notFound(r.Name)
		}
		return 200, asVersion(o, apiVersion)
	case "POST":
		var o map[string]any
		if err := json.Unmarshal(r.Body, &o); err != nil {
			return 400, status(400, "BadRequest", err.Error())
		}
		md, _ := o["metadata"].(map[string]any)
		if md == nil {
			return 422, status(422, "Invalid", "metadata missing")
		}
		n, _ := md["name"].(string)
		if n == "" {
			return 422, status(422, "Invalid", "metadata.name: Required value")
		}
		if _, ok := s.objs[key(n)]; ok {
			return 409, status(409, "AlreadyExists", fmt.Sprintf("%s %q already exists", plural, n))
		}
		s.rv++
		md["resourceVersion"] = fmt.Sprint(s.rv)
		md["uid"] = fmt.Sprintf("uid-%d", s.rv)
		md["creationTimestamp"] = "2024-01-01T00:00:00Z"
		if res.Namespaced {
			md["namespace"] = ns
		}
		o["apiVersion"], o["kind"] = apiVersion, res.Kind
		s.objs[key(n)] = o
		return 201, o
	case "PUT":
		var o map[string]any
		if err := json.Unmarshal(r.Body, &o); err != nil {
			return 400, status(400, "BadRequest", err.Error())
		}
		cur, ok := s.objs[key(r.Name)]
		if !ok {
			return notFound(r.Name)
		}
		md, _ := o["metadata"].(map[string]any)
		if md == nil {
			return 422, status(422, "Invalid", "metadata missing")
		}
		curMD := cur["metadata"].(map[string]any)
		if rv, ok := md["resourceVersion"].(string); ok && rv != "" && rv != curMD["resourceVersion"] {
			return 409, status(409, "Conflict", "the object has been modified; please apply your changes to the latest version and try again")
		}
		s.rv++
		md["resourceVersion"] = fmt.Sprint(s.rv)
		md["uid"] = curMD["uid"]
		md["creationTimestamp"] = curMD["creationTimestamp"]
		if res.Namespaced {
			md["namespace"] = ns
		}
		o["apiVersion"], o["kind"] = apiVersion, res.Kind
		s.objs[key(r.Name)] = o
		return 200, o
	case "PATCH":
		cur, ok := s.objs[key(r.Name)]
		if !ok {
			return notFound(r.Name)
		}
		curJSON, _ := json.Marshal(cur)
		var out []byte
		var err error
		switch ct := r.ContentType; {
		case strings.HasPrefix(ct, "application/strategic-merge-patch+json"):
			typed, terr := scheme.Scheme.New(schema.GroupVersionKind{Group: res.Group, Version: res.Version, Kind: res.Kind})
			if terr != nil {
				return 415, status(415, "UnsupportedMediaType", terr.Error())
			}
			out, err = strategicpatch.StrategicMergePatch(curJSON, r.Body, typed)
		case strings.HasPrefix(ct, "application/merge-patch+json"):
			out, err = jsonpatch.MergePatch(curJSON, r.Body)
		default:
			return 415, status(415, "UnsupportedMediaType", ct)
		}
		if err != nil {
			return 422, status(422, "Invalid", err.Error())
		}
		var o map[string]any
		if err := json.Unmarshal(out, &o); err != nil {
			return 422, status(422, "Invalid", err.Error())
		}
		md, _ := o["metadata"].(map[string]any)
		if md == nil {
			return 422, status(422, "Invalid", "patch removed metadata")
		}
		s.rv++
		md["resourceVersion"] = fmt.Sprint(s.rv)
		s.objs[key(r.Name)] = o
		return 200, o
	case "DELETE":
		if r.Name == "" {
			return 405, status(405, "MethodNotAllowed", "deletecollection not supported")
		}
		o, ok := s.objs[key(r.Name)]
		if !ok {
			return notFound(r.Name)
		}
		delete(s.objs, key(r.Name))
		return 200, o
	}
	return 405, status(405, "MethodNotAllowed", r.Method)
}
