// private development main for C04/C11/C13 (see harness/README.md)
package main

import (
	"helm.sh/helm/v4/verifh/core"

	_ "helm.sh/helm/v4/verifh/props/c04"
	_ "helm.sh/helm/v4/verifh/props/c11"
	_ "helm.sh/helm/v4/verifh/props/c13"
)

func main() { core.Main() }
