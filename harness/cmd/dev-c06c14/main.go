// dev-c06c14: private development binary for the C06 and C14 monitors only.
package main

import (
	"helm.sh/helm/v4/verifh/core"

	_ "helm.sh/helm/v4/verifh/props/c06"
	_ "helm.sh/helm/v4/verifh/props/c14"
)

func main() { core.Main() }
