// private dev main for C17/C18/C19 (harness/README.md "Building and running"); safe to delete
package main

import (
	"helm.sh/helm/v4/verifh/core"

	_ "helm.sh/helm/v4/verifh/props/c17"
	_ "helm.sh/helm/v4/verifh/props/c18"
	_ "helm.sh/helm/v4/verifh/props/c19"
)

func main() { core.Main() }
