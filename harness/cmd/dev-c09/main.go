// dev-c09: private build of the C09 monitor only (plus single-monitor subsets).
package main

import (
	"strings"

	"helm.sh/helm/v4/verifh/core"
	"helm.sh/helm/v4/verifh/props/c09"
)

func main() {
	c09.DevSubset("C09RACE", func(k, _ string) bool { return strings.HasPrefix(k, "race") })
	c09.DevSubset("C09RACEMEM", func(k, d string) bool { return k == "race-ops" && d == "memory" })
	c09.DevSubset("C09LIN", func(k, _ string) bool { return k == "lin" })
	c09.DevSubset("C09SCHED", func(k, _ string) bool { return k == "dfs" || k == "rand" })
	core.Main()
}
