// dev-c09: private build of the C09 monitor only.
package main

import (
	"helm.sh/helm/v4/verifh/core"

	_ "helm.sh/helm/v4/verifh/props/c09"
)

func main() { core.Main() }
