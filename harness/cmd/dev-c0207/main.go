// dev main: only C02 and C07 (private builds while other packages are in flux).
package main

import (
	"helm.sh/helm/v4/verifh/core"

	_ "helm.sh/helm/v4/verifh/props/c02"
	_ "helm.sh/helm/v4/verifh/props/c07"
)

func main() { core.Main() }
