// vcheck: runtime monitors for the helm properties C01..C20.
package main

import (
	"helm.sh/helm/v4/verifh/core"

	_ "helm.sh/helm/v4/verifh/props/c01"
)

func main() { core.Main() }
