// vcheck: runtime monitors for the helm properties C01..C20.
package main

import (
	"helm.sh/helm/v4/verifh/core"

	_ "helm.sh/helm/v4/verifh/props/c01"
	_ "helm.sh/helm/v4/verifh/props/c02"
	_ "helm.sh/helm/v4/verifh/props/c03"
	_ "helm.sh/helm/v4/verifh/props/c04"
	_ "helm.sh/helm/v4/verifh/props/c05"
	_ "helm.sh/helm/v4/verifh/props/c06"
	_ "helm.sh/helm/v4/verifh/props/c07"
	_ "helm.sh/helm/v4/verifh/props/c08"
	_ "helm.sh/helm/v4/verifh/props/c09"
	_ "helm.sh/helm/v4/verifh/props/c10"
	_ "helm.sh/helm/v4/verifh/props/c11"
	_ "helm.sh/helm/v4/verifh/props/c12"
	_ "helm.sh/helm/v4/verifh/props/c13"
	_ "helm.sh/helm/v4/verifh/props/c14"
	_ "helm.sh/helm/v4/verifh/props/c15"
	_ "helm.sh/helm/v4/verifh/props/c16"
	_ "helm.sh/helm/v4/verifh/props/c17"
	_ "helm.sh/helm/v4/verifh/props/c18"
	_ "helm.sh/helm/v4/verifh/props/c19"
	_ "helm.sh/helm/v4/verifh/props/c20"
)

func main() { core.Main() }
