// private dev main for the C03/C12 builder (see README "Building and running")
package main

import (
	"helm.sh/helm/v4/verifh/core"

	_ "helm.sh/helm/v4/verifh/props/c03"
	_ "helm.sh/helm/v4/verifh/props/c12"
)

func main() { core.Main() }
