// private dev main (C20 only); not part of the shipped harness
package main

import (
	"helm.sh/helm/v4/verifh/core"

	_ "helm.sh/helm/v4/verifh/props/c20"
)

func main() { core.Main() }
