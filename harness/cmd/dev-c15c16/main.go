// private development main for C15/C16 (not part of the shipped vcheck)
package main

import (
	"helm.sh/helm/v4/verifh/core"

	_ "helm.sh/helm/v4/verifh/props/c15"
	_ "helm.sh/helm/v4/verifh/props/c16"
)

func main() { core.Main() }
