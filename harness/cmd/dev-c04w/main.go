// throwaway: minimal witnesses for C11 findings
package main

import (
	"fmt"
	"sort"

	chartutil "helm.sh/helm/v4/pkg/chart/v2/util"
	"helm.sh/helm/v4/pkg/engine"
	"helm.sh/helm/v4/verifh/gen"
)

const probe = "v: {{ toJson .Values }}\n"

func render(name string, f gen.Files, user map[string]any) {
	ch := f.Build()
	if err := chartutil.ProcessDependencies(ch, user); err != nil {
		fmt.Println(name, "ERR", err)
		return
	}
	top, err := chartutil.ToRenderValues(ch, user, chartutil.ReleaseOptions{Name: "r", Namespace: "ns"}, nil)
	if err != nil {
		fmt.Println(name, "ERR", err)
		return
	}
	out, err := engine.Render(ch, top)
	if err != nil {
		fmt.Println(name, "ERR", err)
		return
	}
	var ks []string
	for k := range out {
		ks = append(ks, k)
	}
	sort.Strings(ks)
	fmt.Println("==", name)
	for _, k := range ks {
		fmt.Printf("  %s: %s", k, out[k])
	}
}

func main() {
	// D1: nested global table leaks upward and sideways
	render("D1", gen.Files{
		"Chart.yaml":                       "apiVersion: v2\nname: top\nversion: 0.1.0\ndependencies:\n- name: c1\n  version: 0.1.0\n- name: c2\n  version: 0.1.0\n",
		"values.yaml":                      "global:\n  gm:\n    deep:\n      a: from-top\n",
		"templates/p.yaml":                 probe,
		"charts/c1/Chart.yaml":             "apiVersion: v2\nname: c1\nversion: 0.1.0\n",
		"charts/c1/values.yaml":            "global:\n  gm:\n    deep:\n      b: from-c1-defaults\n",
		"charts/c1/templates/p.yaml":       probe,
		"charts/c2/Chart.yaml":             "apiVersion: v2\nname: c2\nversion: 0.1.0\n",
		"charts/c2/values.yaml":            "{}\n",
		"charts/c2/templates/p.yaml":       probe,
	}, map[string]any{"c1": map[string]any{"global": map[string]any{"gm": map[string]any{"deep": map[string]any{"u": "user-set-for-c1-only"}}}}})
	// D2: aliased sub-subchart, condition value only in its own values.yaml
	render("D2", gen.Files{
		"Chart.yaml":                                  "apiVersion: v2\nname: top\nversion: 0.1.0\ndependencies:\n- name: mid\n  version: 0.1.0\n",
		"values.yaml":                                 "{}\n",
		"templates/p.yaml":                            probe,
		"charts/mid/Chart.yaml":                       "apiVersion: v2\nname: mid\nversion: 0.1.0\ndependencies:\n- name: leaf\n  version: 0.1.0\n  alias: lal\n  condition: lal.enabled\n",
		"charts/mid/values.yaml":                      "{}\n",
		"charts/mid/templates/p.yaml":                 probe,
		"charts/mid/charts/leaf/Chart.yaml":           "apiVersion: v2\nname: leaf\nversion: 0.1.0\n",
		"charts/mid/charts/leaf/values.yaml":          "enabled: false\n",
		"charts/mid/charts/leaf/templates/p.yaml":     probe,
	}, map[string]any{})
	// D3: chart used twice, its aliased dependency
	render("D3", gen.Files{
		"Chart.yaml":                            "apiVersion: v2\nname: top\nversion: 0.1.0\ndependencies:\n- name: c1\n  version: 0.1.0\n- name: c1\n  version: 0.1.0\n  alias: al2\n",
		"values.yaml":                           "{}\n",
		"templates/p.yaml":                      probe,
		"charts/c1/Chart.yaml":                  "apiVersion: v2\nname: c1\nversion: 0.1.0\ndependencies:\n- name: g1\n  version: 0.1.0\n  alias: gal1\n  condition: gal1.enabled\n",
		"charts/c1/values.yaml":                 "gal1:\n  enabled: false\n",
		"charts/c1/templates/p.yaml":            probe,
		"charts/c1/charts/g1/Chart.yaml":        "apiVersion: v2\nname: g1\nversion: 0.1.0\n",
		"charts/c1/charts/g1/values.yaml":       "{}\n",
		"charts/c1/charts/g1/templates/p.yaml":  probe,
	}, map[string]any{})
	// D5: root lists no dependencies; unlisted child has a disabled dependency
	render("D5", gen.Files{
		"Chart.yaml":                            "apiVersion: v2\nname: top\nversion: 0.1.0\n",
		"values.yaml":                           "{}\n",
		"templates/p.yaml":                      probe,
		"charts/c1/Chart.yaml":                  "apiVersion: v2\nname: c1\nversion: 0.1.0\ndependencies:\n- name: g1\n  version: 0.1.0\n  condition: g1.enabled\n",
		"charts/c1/values.yaml":                 "g1:\n  enabled: false\n",
		"charts/c1/templates/p.yaml":            probe,
		"charts/c1/charts/g1/Chart.yaml":        "apiVersion: v2\nname: g1\nversion: 0.1.0\n",
		"charts/c1/charts/g1/values.yaml":       "{}\n",
		"charts/c1/charts/g1/templates/p.yaml":  probe,
	}, map[string]any{})
	// D4/D6: unlisted subchart below a chart used twice
	render("D4", gen.Files{
		"Chart.yaml":                            "apiVersion: v2\nname: top\nversion: 0.1.0\ndependencies:\n- name: c1\n  version: 0.1.0\n- name: c1\n  version: 0.1.0\n  alias: al2\n",
		"values.yaml":                           "{}\n",
		"templates/p.yaml":                      probe,
		"charts/c1/Chart.yaml":                  "apiVersion: v2\nname: c1\nversion: 0.1.0\ndependencies:\n- name: g1\n  version: 0.1.0\n",
		"charts/c1/values.yaml":                 "{}\n",
		"charts/c1/templates/p.yaml":            probe,
		"charts/c1/charts/g1/Chart.yaml":        "apiVersion: v2\nname: g1\nversion: 0.1.0\n",
		"charts/c1/charts/g1/values.yaml":       "{}\n",
		"charts/c1/charts/g1/templates/p.yaml":  probe,
		"charts/c1/charts/u1/Chart.yaml":        "apiVersion: v2\nname: u1\nversion: 0.1.0\n",
		"charts/c1/charts/u1/values.yaml":       "{}\n",
		"charts/c1/charts/u1/templates/p.yaml":  probe,
	}, map[string]any{"al2": map[string]any{"u1": map[string]any{"k": "for-al2-u1"}}})
}
