// Package core is the shared runner of the runtime monitors: it turns a property
// (a deterministic case list + a function that executes one case against the real
// helm code and judges what it observed) into a sharded multi-process run with
// crash attribution, known-findings handling, replay files and evidence output.
package core

import (
	"encoding/json"
	"fmt"
	"sort"
)

// Case is one unit of work. Data must be a pure function of (seed, tier, index).
type Case struct {
	ID   string          `json:"id"`
	Mode string          `json:"mode,omitempty"` // "" plain binary | "race" race-detector binary | "strace" under strace
	Data json.RawMessage `json:"data"`
}

// Violation is one refuting observation. Signature() identifies it in known_findings.json.
type Violation struct {
	Clause string `json:"clause"` // which oracle clause fired
	Class  string `json:"class"`  // witness class: call site / input shape / history shape
	Detail string `json:"detail"` // human readable witness
}

func (v Violation) Signature() string { return v.Clause + " · " + v.Class }

// Result is what executing one case observed.
type Result struct {
	Violations   []Violation      `json:"violations,omitempty"`
	Keys         []string         `json:"keys,omitempty"`    // shape keys of non-trivial sub-cases (distinct ones are counted)
	Evals        int64            `json:"evals,omitempty"`   // executions inside this case (default 1)
	Stats        map[string]int64 `json:"stats,omitempty"`   // monitor counters (events observed ...)
	Sample       any              `json:"sample,omitempty"`  // written to evidence.samples for a few cases
	Inconclusive string           `json:"inconclusive,omitempty"`
}

func (r *Result) Add(clause, class, format string, a ...any) {
	r.Violations = append(r.Violations, Violation{clause, class, fmt.Sprintf(format, a...)})
}
func (r *Result) Stat(k string, n int64) {
	if r.Stats == nil {
		r.Stats = map[string]int64{}
	}
	r.Stats[k] += n
}
func (r *Result) Key(format string, a ...any) { r.Keys = append(r.Keys, fmt.Sprintf(format, a...)) }

// Agg is the aggregate over all cases, handed to Prop.Post.
type Agg struct {
	Evals     int64
	Cases     int
	Keys      map[string]int64
	Stats     map[string]int64
	Scratch   string // scratch directory of the run (journals, race logs, strace output)
	Tier      string
	Seed      int64
	ExtraViol []CaseViolation
}

type CaseViolation struct {
	Case Case
	V    Violation
}

// Prop describes one property's monitor.
type Prop struct {
	ID          string
	Level       string // evidence level: exploration | fault_enumeration | ...
	Rule        string // how cases are generated, what counts as distinct non-trivial
	Assumptions []string
	Exhaustive  func(tier string) bool
	// Gen returns the deterministic case list.
	Gen func(seed int64, tier string) []Case
	// Run executes one case. It runs in a worker process; a crash is attributed to the case.
	Run func(c Case, verbose bool) Result
	// Post may inspect the aggregate (positive controls, minimum event counts, strace logs) and
	// returns a non-empty string when the run is inconclusive.
	Post func(a *Agg) string
	// CaseTimeoutSec: watchdog per case (default 300). Firing => inconclusive unless HangIsViolation.
	CaseTimeoutSec  int
	HangIsViolation bool
	Workers         int // default 16
	// StraceArgs: for Mode=="strace" cases, extra arguments for strace (-e trace=...)
	StraceArgs []string
	// RaceClassSuffix, if set, is appended to the class of a race-detector report (e.g. to tell
	// which storage driver the racing workload ran on, derived from harness frames in the report).
	RaceClassSuffix func(report string) string
	// Explanation for evidence
	Explanation string
}

var registry = map[string]*Prop{}

func Register(p *Prop) { registry[p.ID] = p }

func Lookup(id string) *Prop { return registry[id] }

func IDs() []string {
	var ids []string
	for k := range registry {
		ids = append(ids, k)
	}
	sort.Strings(ids)
	return ids
}

// J marshals a case payload.
func J(v any) json.RawMessage {
	b, err := json.Marshal(v)
	if err != nil {
		panic(err)
	}
	return b
}

// U unmarshals a case payload.
func U(c Case, v any) {
	if err := json.Unmarshal(c.Data, v); err != nil {
		panic(fmt.Sprintf("case %s: %v", c.ID, err))
	}
}
