package core

import (
	"bufio"
	"bytes"
	"crypto/sha1"
	"encoding/json"
	"flag"
	"fmt"
	"os"
	"os/exec"
	"path/filepath"
	"regexp"
	"runtime/debug"
	"sort"
	"strconv"
	"strings"
	"sync"
	"syscall"
	"time"
)

// VerifDir is /verif unless VERIF_DIR is set.
func VerifDir() string {
	if d := os.Getenv("VERIF_DIR"); d != "" {
		return d
	}
	return "/verif"
}

type knownFinding struct {
	Property    string `json:"property"`
	Signature   string `json:"signature"`
	Status      string `json:"status"` // known | fixed
	Commit      string `json:"commit,omitempty"`
	Description string `json:"description"`
}

func loadKnown(prop string) map[string]knownFinding {
	out := map[string]knownFinding{}
	var all []knownFinding
	files := []string{filepath.Join(VerifDir(), "known_findings.json")}
	more, _ := filepath.Glob(filepath.Join(VerifDir(), "known_findings.d", "*.json"))
	files = append(files, more...)
	for _, f := range files {
		b, err := os.ReadFile(f)
		if err != nil {
			continue
		}
		var part []knownFinding
		if err := json.Unmarshal(b, &part); err != nil {
			fmt.Fprintln(os.Stderr, f, "unreadable:", err)
			continue
		}
		all = append(all, part...)
	}
	for _, k := range all {
		if k.Property == prop && k.Status == "known" {
			out[k.Signature] = k
		}
	}
	return out
}

// Main is the entry point of the vcheck binary.
func Main() {
	if len(os.Args) < 2 {
		fmt.Fprintln(os.Stderr, "usage: vcheck run|worker|replay|list ...")
		os.Exit(2)
	}
	switch os.Args[1] {
	case "list":
		for _, id := range IDs() {
			fmt.Println(id)
		}
	case "run":
		fs := flag.NewFlagSet("run", flag.ExitOnError)
		id := fs.String("prop", "", "property id")
		tier := fs.String("tier", envOr("VERIF_TIER", "quick"), "quick|thorough")
		seed := fs.Int64("seed", envInt("VERIF_SEED", 1), "seed")
		fs.Parse(os.Args[2:])
		os.Exit(runParent(*id, *tier, *seed))
	case "worker":
		fs := flag.NewFlagSet("worker", flag.ExitOnError)
		id := fs.String("prop", "", "")
		tier := fs.String("tier", "quick", "")
		seed := fs.Int64("seed", 1, "")
		mode := fs.String("mode", "", "")
		shard := fs.Int("shard", 0, "")
		of := fs.Int("of", 1, "")
		after := fs.Int("after", -1, "")
		journal := fs.String("journal", "", "")
		fs.Parse(os.Args[2:])
		runWorker(*id, *tier, *seed, *mode, *shard, *of, *after, *journal)
	case "replay":
		fs := flag.NewFlagSet("replay", flag.ExitOnError)
		file := fs.String("file", "", "")
		fs.Parse(os.Args[2:])
		os.Exit(runReplay(*file))
	default:
		fmt.Fprintln(os.Stderr, "unknown subcommand", os.Args[1])
		os.Exit(2)
	}
}

func envOr(k, d string) string {
	if v := os.Getenv(k); v != "" {
		return v
	}
	return d
}
func envInt(k string, d int64) int64 {
	if v := os.Getenv(k); v != "" {
		if n, err := strconv.ParseInt(v, 10, 64); err == nil {
			return n
		}
	}
	return d
}

type replayFile struct {
	Property  string     `json:"property"`
	Seed      int64      `json:"seed"`
	Tier      string     `json:"tier"`
	Case      Case       `json:"case"`
	Violation *Violation `json:"violation,omitempty"`
	Note      string     `json:"note,omitempty"`
}

func runReplay(file string) int {
	b, err := os.ReadFile(file)
	if err != nil {
		fmt.Fprintln(os.Stderr, err)
		return 2
	}
	var rf replayFile
	if err := json.Unmarshal(b, &rf); err != nil {
		fmt.Fprintln(os.Stderr, err)
		return 2
	}
	p := Lookup(rf.Property)
	if p == nil {
		fmt.Fprintln(os.Stderr, "unknown property", rf.Property)
		return 2
	}
	res := p.Run(rf.Case, true)
	out, _ := json.MarshalIndent(res, "", "  ")
	fmt.Println(string(out))
	if len(res.Violations) > 0 {
		for _, v := range res.Violations {
			fmt.Printf("VIOLATION property=%s replay=%s  [%s] %s\n", rf.Property, file, v.Signature(), v.Detail)
		}
		return 1
	}
	return 0
}

// ---------------------------------------------------------------- worker

func modeCases(all []Case, mode string) []int {
	var idx []int
	for i, c := range all {
		if c.Mode == mode {
			idx = append(idx, i)
		}
	}
	return idx
}

func runWorker(id, tier string, seed int64, mode string, shard, of, after int, journal string) {
	p := Lookup(id)
	if p == nil {
		fmt.Fprintln(os.Stderr, "unknown property", id)
		os.Exit(2)
	}
	debug.SetTraceback("all")
	f, err := os.OpenFile(journal, os.O_APPEND|os.O_CREATE|os.O_WRONLY, 0o644)
	if err != nil {
		fmt.Fprintln(os.Stderr, err)
		os.Exit(2)
	}
	all := p.Gen(seed, tier)
	idx := modeCases(all, mode)
	for k, ci := range idx {
		if k%of != shard || k <= after {
			continue
		}
		fmt.Fprintf(f, "B %d\n", k)
		res := p.Run(all[ci], false)
		b, _ := json.Marshal(res)
		fmt.Fprintf(f, "R %d %s\n", k, b)
	}
	fmt.Fprintf(f, "E\n")
	f.Close()
}

// ---------------------------------------------------------------- parent

type workerState struct {
	mode    string
	shard   int
	of      int
	journal string
	errFile string
	after   int
	cmd     *exec.Cmd
	done    chan error
}

type caseOutcome struct {
	res     *Result
	crashed string // stderr excerpt
	timeout bool
}

func runParent(id, tier string, seed int64) int {
	start := time.Now()
	p := Lookup(id)
	if p == nil {
		fmt.Fprintln(os.Stderr, "unknown property", id)
		return 2
	}
	exe, _ := os.Executable()
	scratch, err := os.MkdirTemp("", "vcheck-"+id+"-")
	if err != nil {
		fmt.Fprintln(os.Stderr, err)
		return 2
	}
	if os.Getenv("VERIF_KEEP") == "" {
		defer os.RemoveAll(scratch)
	}
	all := p.Gen(seed, tier)
	if len(all) == 0 {
		fmt.Fprintf(os.Stderr, "%s: empty case list\n", id)
		return 3
	}
	modes := map[string]bool{}
	for _, c := range all {
		modes[c.Mode] = true
	}
	outcomes := make([]caseOutcome, len(all))
	nworkers := p.Workers
	if nworkers <= 0 {
		nworkers = 16
	}
	if n := envInt("VERIF_WORKERS", 0); n > 0 {
		nworkers = int(n)
	}
	timeout := time.Duration(p.CaseTimeoutSec) * time.Second
	if timeout == 0 {
		timeout = 300 * time.Second
	}
	var modeList []string
	for m := range modes {
		modeList = append(modeList, m)
	}
	sort.Strings(modeList)
	var mu sync.Mutex
	for _, mode := range modeList {
		idx := modeCases(all, mode)
		w := nworkers
		if mode == "strace" {
			w = 1
		}
		if w > len(idx) {
			w = len(idx)
		}
		var wg sync.WaitGroup
		for s := 0; s < w; s++ {
			wg.Add(1)
			go func(s int) {
				defer wg.Done()
				superviseShard(p, exe, scratch, id, tier, seed, mode, s, w, idx, timeout, func(k int, o caseOutcome) {
					mu.Lock()
					outcomes[idx[k]] = o
					mu.Unlock()
				})
			}(s)
		}
		wg.Wait()
	}

	// aggregate
	agg := &Agg{Keys: map[string]int64{}, Stats: map[string]int64{}, Scratch: scratch, Tier: tier, Seed: seed}
	var viols []CaseViolation
	var samples []any
	inconclusive := []string{}
	for i, o := range outcomes {
		c := all[i]
		switch {
		case o.timeout:
			if p.HangIsViolation {
				viols = append(viols, CaseViolation{c, Violation{"hang", "watchdog " + timeout.String(), "case did not finish within the watchdog; " + o.crashed}})
			} else {
				inconclusive = append(inconclusive, fmt.Sprintf("case %s: watchdog fired", c.ID))
			}
		case o.crashed != "":
			viols = append(viols, CaseViolation{c, Violation{"crashed", crashClass(o.crashed), o.crashed}})
		case o.res == nil:
			inconclusive = append(inconclusive, fmt.Sprintf("case %s: no result", c.ID))
		default:
			r := o.res
			agg.Cases++
			if r.Evals == 0 {
				r.Evals = 1
			}
			agg.Evals += r.Evals
			for _, k := range r.Keys {
				agg.Keys[k]++
			}
			for k, v := range r.Stats {
				agg.Stats[k] += v
			}
			if r.Sample != nil && len(samples) < 4 {
				samples = append(samples, r.Sample)
			}
			if r.Inconclusive != "" {
				inconclusive = append(inconclusive, fmt.Sprintf("case %s: %s", c.ID, r.Inconclusive))
			}
			for _, v := range r.Violations {
				viols = append(viols, CaseViolation{c, v})
			}
		}
	}
	// race-detector reports
	if modes["race"] {
		reports := collectRaceReports(scratch)
		agg.Stats["race_reports_total"] = int64(len(reports))
		seen := map[string]bool{}
		for _, rep := range reports {
			cls, helm := raceClass(rep)
			if helm && p.RaceClassSuffix != nil {
				cls += p.RaceClassSuffix(rep)
			}
			if !helm {
				agg.Stats["race_reports_foreign"]++
				continue
			}
			if seen[cls] {
				continue
			}
			seen[cls] = true
			viols = append(viols, CaseViolation{Case{ID: "race-report", Mode: "race", Data: J(map[string]string{"report": rep})}, Violation{"data-race", cls, rep}})
		}
		agg.Stats["race_reports_helm_distinct"] = int64(len(seen))
	}
	if p.Post != nil {
		if msg := p.Post(agg); msg != "" {
			inconclusive = append(inconclusive, msg)
		}
		viols = append(viols, agg.ExtraViol...)
	}
	if len(samples) == 0 {
		samples = append(samples, map[string]any{"case": all[0]})
	}

	// classify violations
	known := loadKnown(id)
	knownSeen := map[string]int{}
	newBySig := map[string][]CaseViolation{}
	var sigOrder []string
	for _, cv := range viols {
		sig := cv.V.Signature()
		if _, ok := known[sig]; ok {
			knownSeen[sig]++
			continue
		}
		if _, ok := newBySig[sig]; !ok {
			sigOrder = append(sigOrder, sig)
		}
		newBySig[sig] = append(newBySig[sig], cv)
	}
	var ksigs []string
	for s := range knownSeen {
		ksigs = append(ksigs, s)
	}
	sort.Strings(ksigs)
	for _, s := range ksigs {
		fmt.Printf("KNOWN-FINDING: property=%s %s (signature %q, %d occurrences this run)\n", id, known[s].Description, s, knownSeen[s])
	}
	nviol := 0
	os.MkdirAll(filepath.Join(VerifDir(), "replays"), 0o755)
	for _, sig := range sigOrder {
		cvs := newBySig[sig]
		nviol += len(cvs)
		cv := cvs[0]
		h := sha1.Sum([]byte(sig + cv.Case.ID))
		path := filepath.Join(VerifDir(), "replays", fmt.Sprintf("%s-%x.json", id, h[:5]))
		rf := replayFile{Property: id, Seed: seed, Tier: tier, Case: cv.Case, Violation: &cv.V, Note: fmt.Sprintf("%d occurrences of this signature in the run", len(cvs))}
		b, _ := json.MarshalIndent(rf, "", " ")
		os.WriteFile(path, b, 0o644)
		d := cv.V.Detail
		if len(d) > 600 {
			d = strings.ToValidUTF8(d[:600], "") + "..."
		}
		fmt.Printf("VIOLATION property=%s replay=%s signature=%q occurrences=%d detail=%s\n", id, path, sig, len(cvs), strings.ReplaceAll(d, "\n", " | "))
	}

	// evidence
	distinct := int64(len(agg.Keys))
	cov := map[string]any{
		"evaluations":         agg.Evals,
		"distinct_nontrivial": distinct,
		"rule":                p.Rule,
		"samples":             samples,
		"cases":               agg.Cases,
		"monitor_counters":    agg.Stats,
		"known_finding_hits":  knownSeen,
	}
	if p.Exhaustive != nil && p.Exhaustive(tier) {
		cov["exhaustive"] = true
	}
	if p.Explanation != "" {
		cov["explanation"] = p.Explanation
	}
	ev := map[string]any{
		"property_id": id, "tier": tier, "seed": seed, "level": p.Level, "coverage": cov,
		"assumptions": p.Assumptions, "wall_s": time.Since(start).Seconds(), "violations": nviol,
	}
	if len(inconclusive) > 0 {
		ev["inconclusive"] = inconclusive
	}
	os.MkdirAll(filepath.Join(VerifDir(), "evidence"), 0o755)
	eb, _ := json.MarshalIndent(ev, "", " ")
	os.WriteFile(filepath.Join(VerifDir(), "evidence", id+".json"), eb, 0o644)

	fmt.Printf("%s tier=%s seed=%d cases=%d evaluations=%d distinct_nontrivial=%d violations=%d known=%d wall=%.1fs\n",
		id, tier, seed, agg.Cases, agg.Evals, distinct, nviol, len(knownSeen), time.Since(start).Seconds())
	var sk []string
	for k := range agg.Stats {
		sk = append(sk, k)
	}
	sort.Strings(sk)
	for _, k := range sk {
		fmt.Printf("  observed %s=%d\n", k, agg.Stats[k])
	}
	if nviol > 0 {
		return 1
	}
	if len(inconclusive) > 0 {
		for i, m := range inconclusive {
			if i > 10 {
				break
			}
			fmt.Printf("INCONCLUSIVE %s: %s\n", id, m)
		}
		return 3
	}
	if distinct < 2 {
		fmt.Printf("INCONCLUSIVE %s: fewer than 2 distinct non-trivial cases observed\n", id)
		return 3
	}
	return 0
}

// superviseShard runs one shard to completion, restarting the worker after crashes / timeouts.
func superviseShard(p *Prop, exe, scratch, id, tier string, seed int64, mode string, shard, of int, idx []int, timeout time.Duration, report func(k int, o caseOutcome)) {
	journal := filepath.Join(scratch, fmt.Sprintf("journal-%s-%d", mode, shard))
	errFile := filepath.Join(scratch, fmt.Sprintf("stderr-%s-%d", mode, shard))
	after := -1
	var readOff int64
	for attempt := 0; attempt < 200; attempt++ {
		bin := exe
		if mode == "race" {
			bin = exe + ".race"
		}
		args := []string{"worker", "-prop", id, "-tier", tier, "-seed", fmt.Sprint(seed), "-mode", mode, "-shard", fmt.Sprint(shard), "-of", fmt.Sprint(of), "-after", fmt.Sprint(after), "-journal", journal}
		var cmd *exec.Cmd
		if mode == "strace" {
			sargs := append([]string{"-f", "-o", filepath.Join(scratch, fmt.Sprintf("strace-%d-%d", shard, attempt))}, p.StraceArgs...)
			sargs = append(sargs, bin)
			sargs = append(sargs, args...)
			cmd = exec.Command("strace", sargs...)
		} else {
			cmd = exec.Command(bin, args...)
		}
		ef, _ := os.OpenFile(errFile, os.O_CREATE|os.O_WRONLY|os.O_TRUNC, 0o644)
		cmd.Stderr = ef
		cmd.Stdout = ef
		cmd.Env = append(os.Environ(), "VERIF_SCRATCH="+scratch, "VERIF_WORKER=1")
		if mode == "race" {
			cmd.Env = append(cmd.Env, "GORACE=halt_on_error=0 log_path="+filepath.Join(scratch, fmt.Sprintf("racelog-%d", shard)))
		}
		cmd.SysProcAttr = &syscall.SysProcAttr{Setpgid: true}
		if err := cmd.Start(); err != nil {
			ef.Close()
			fmt.Fprintln(os.Stderr, "cannot start worker:", err)
			return
		}
		done := make(chan error, 1)
		go func() { done <- cmd.Wait() }()
		current := -1
		lastProgress := time.Now()
		finished := false
		exited := false
		timedOut := false
		for !exited {
			select {
			case <-done:
				exited = true
			case <-time.After(100 * time.Millisecond):
			}
			// read new journal lines
			jf, err := os.Open(journal)
			if err == nil {
				jf.Seek(readOff, 0)
				rd := bufio.NewReaderSize(jf, 1<<20)
				for {
					line, err := rd.ReadString('\n')
					if err != nil {
						break // partial line: re-read next time
					}
					readOff += int64(len(line))
					lastProgress = time.Now()
					line = strings.TrimRight(line, "\n")
					switch {
					case strings.HasPrefix(line, "B "):
						current, _ = strconv.Atoi(line[2:])
					case strings.HasPrefix(line, "R "):
						rest := line[2:]
						sp := strings.IndexByte(rest, ' ')
						k, _ := strconv.Atoi(rest[:sp])
						var r Result
						if err := json.Unmarshal([]byte(rest[sp+1:]), &r); err == nil {
							report(k, caseOutcome{res: &r})
						}
						after = k
						current = -1
					case line == "E":
						finished = true
					}
				}
				jf.Close()
			}
			if !exited && current >= 0 && time.Since(lastProgress) > timeout {
				syscall.Kill(-cmd.Process.Pid, syscall.SIGQUIT)
				time.Sleep(500 * time.Millisecond)
				syscall.Kill(-cmd.Process.Pid, syscall.SIGKILL)
				timedOut = true
				<-done
				exited = true
			}
		}
		ef.Close()
		if finished {
			return
		}
		// worker died in the middle of case `current` (or before starting one)
		tail := stderrExcerpt(errFile)
		if current >= 0 {
			if timedOut {
				report(current, caseOutcome{timeout: true, crashed: tail})
			} else {
				report(current, caseOutcome{crashed: tail})
			}
			after = current
		} else {
			// died outside a case (e.g. in Gen): cannot make progress
			fmt.Fprintf(os.Stderr, "worker %s/%d died outside a case:\n%s\n", mode, shard, tail)
			return
		}
		_ = idx
	}
}

var panicRe = regexp.MustCompile(`(?m)^(panic: .*|fatal error: .*|runtime: goroutine stack exceeds.*)$`)
var frameRe = regexp.MustCompile(`(?m)^(helm\.sh/helm/v4/(?:pkg|internal|cmd)/[^\s(]+(?:\([^)]*\))?[^\s(]*)\(`)

func stderrExcerpt(path string) string {
	b, err := os.ReadFile(path)
	if err != nil {
		return "(no stderr)"
	}
	loc := panicRe.FindIndex(b)
	if loc == nil {
		if len(b) > 1500 {
			b = b[len(b)-1500:]
		}
		return "worker exited abnormally; stderr tail: " + string(b)
	}
	ex := b[loc[0]:]
	if len(ex) > 3000 {
		ex = ex[:3000]
	}
	return string(ex)
}

// crashClass extracts "<panic message> @ <first helm frame>" from a stderr excerpt.
func crashClass(ex string) string {
	msg := "abnormal exit"
	if m := panicRe.FindString(ex); m != "" {
		msg = m
	}
	msg = normalizeMsg(msg)
	fr := ""
	if m := frameRe.FindStringSubmatch(ex); m != nil {
		fr = m[1]
	}
	return msg + " @ " + fr
}

var hexRe = regexp.MustCompile(`0x[0-9a-f]+`)
var numRe = regexp.MustCompile(`\b\d+\b`)

func normalizeMsg(m string) string {
	m = hexRe.ReplaceAllString(m, "0x?")
	m = numRe.ReplaceAllString(m, "N")
	if len(m) > 160 {
		m = m[:160]
	}
	return m
}

// Guard runs f and converts a panic on this goroutine into a violation (clause "panic").
func Guard(r *Result, what string, f func()) (panicked bool) {
	defer func() {
		if x := recover(); x != nil {
			st := string(debug.Stack())
			fr := ""
			for _, m := range frameRe.FindAllStringSubmatch(st, -1) {
				if !strings.Contains(m[1], "verifh") {
					fr = m[1]
					break
				}
			}
			msg := normalizeMsg(fmt.Sprint(x))
			if len(st) > 2500 {
				st = st[:2500]
			}
			r.Violations = append(r.Violations, Violation{"panic", what + ": " + msg + " @ " + fr, fmt.Sprintf("panic: %v\n%s", x, st)})
			panicked = true
		}
	}()
	f()
	return false
}

func collectRaceReports(scratch string) []string {
	files, _ := filepath.Glob(filepath.Join(scratch, "racelog-*"))
	var out []string
	for _, f := range files {
		b, err := os.ReadFile(f)
		if err != nil {
			continue
		}
		for _, blk := range bytes.Split(b, []byte("==================")) {
			if bytes.Contains(blk, []byte("WARNING: DATA RACE")) {
				s := string(blk)
				if len(s) > 6000 {
					s = s[:6000]
				}
				out = append(out, s)
			}
		}
	}
	return out
}

var raceFrameRe = regexp.MustCompile(`(?m)^\s+(helm\.sh/helm/v4/(?:pkg|internal|cmd)/[^\s(]+(?:\([^)]*\))?[^\s(]*)\(`)

// raceClass returns the pair of top helm frames of the two accesses (sorted) and whether any
// helm (non-harness) frame is involved.
func raceClass(rep string) (string, bool) {
	parts := regexp.MustCompile(`(?m)^(?:Previous )?(?:[Rr]ead|[Ww]rite|atomic [a-z]+) (?:at|of size).*$`).Split(rep, -1)
	var tops []string
	for i, part := range parts {
		if i == 0 {
			continue
		}
		// cut at "Goroutine" section
		if j := strings.Index(part, "Goroutine "); j >= 0 {
			part = part[:j]
		}
		top := ""
		for _, m := range raceFrameRe.FindAllStringSubmatch(part, -1) {
			if !strings.Contains(m[1], "verifh") {
				top = m[1]
				break
			}
		}
		tops = append(tops, top)
		if len(tops) == 2 {
			break
		}
	}
	helm := false
	for _, t := range tops {
		if t != "" {
			helm = true
		}
	}
	sort.Strings(tops)
	return strings.Join(tops, " <-> "), helm
}
