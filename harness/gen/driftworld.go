package gen

// Drift worlds: histories of real helm operations over a chart family whose resource sets grow,
// shrink, change content and toggle the resource policy ("keep", a non-keep value, none),
// interleaved with out-of-band edits of live objects, next to bystander objects and a second
// release in the same namespace. Shared by C02 (cluster matches manifest) and C07 (delete
// targets, ownership metadata). Everything is a pure function of the seed.

import (
	"fmt"
	"math/rand"
	"sort"
	"strings"
	"sync"

	"helm.sh/helm/v4/verifh/env"
	"helm.sh/helm/v4/verifh/ref"
	"helm.sh/helm/v4/verifh/sim"
)

// PolPool is SlotPool plus a cluster-scoped kind.
var PolPool = append(append([]Slot{}, SlotPool...), Slot{"ClusterRole", "crole"}, Slot{"HorizontalPodAutoscaler", "hpa"})

// AltAPIVersions: kinds the simulator serves in two API versions of one group (one stored object).
// Chart versions of a PolFamily move such resources between the two.
var AltAPIVersions = map[string][]string{
	"Widget":                  {"example.com/v1", "example.com/v2"},
	"HorizontalPodAutoscaler": {"autoscaling/v2", "autoscaling/v1"},
}

// WithAPIVersion rewrites the apiVersion line of a rendered resource.
func WithAPIVersion(y, apiVersion string) string {
	if apiVersion == "" {
		return y
	}
	i := strings.Index(y, "\n")
	if i < 0 || !strings.HasPrefix(y, "apiVersion: ") {
		return y
	}
	return "apiVersion: " + apiVersion + y[i:]
}

// PolYAML renders one resource (adds the kinds ResourceYAML does not know).
func PolYAML(kind, nameExpr, content, valExpr string, ann map[string]string) string {
	if kind == "ClusterRole" {
		y := ResourceYAML("Role", nameExpr, content, valExpr, ann)
		return strings.Replace(y, "kind: Role\n", "kind: ClusterRole\n", 1)
	}
	if kind == "HorizontalPodAutoscaler" {
		// only fields that autoscaling/v1 and autoscaling/v2 both accept
		y := ResourceYAML("ServiceAccount", nameExpr, content, valExpr, ann)
		y = strings.Replace(y, "apiVersion: v1\nkind: ServiceAccount\n", "apiVersion: autoscaling/v2\nkind: HorizontalPodAutoscaler\n", 1)
		y = strings.Replace(y, "automountServiceAccountToken: false\n", "", 1)
		max := 3 + len(content)%3
		if len(content) > 0 {
			max = 3 + int(content[len(content)-1])%4
		}
		return y + fmt.Sprintf("spec:\n  scaleTargetRef:\n    apiVersion: apps/v1\n    kind: Deployment\n    name: tgt-%s\n  minReplicas: 1\n  maxReplicas: %d\n", content, max)
	}
	y := ResourceYAML(kind, nameExpr, content, valExpr, ann)
	if kind == "StatefulSet" {
		// ResourceYAML writes the pod label as a bare `y`, which YAML 1.1 reads as boolean true; the
		// object then fails conversion to the typed StatefulSet and helm treats it as unstructured.
		y = strings.ReplaceAll(y, "app: y\n", "app: \"y\"\n")
	}
	return y
}

// PolVersion is one chart version of a PolFamily.
type PolVersion struct {
	Slots   []int
	Content map[int]string
	Policy  map[int]string // slot -> value of helm.sh/resource-policy ("" = no annotation)
	APIVer  map[int]string // slot -> apiVersion override (kinds of AltAPIVersions only)
	// Twin: slot -> resource policy of a second resource of the same kind and metadata.name that
	// lives in DriftOtherNS through an explicit metadata.namespace (present when the key exists)
	Twin  map[int]string
	Hooks []HookSpec
	DefK  string
}

type PolFamily struct {
	Name     string
	Versions []PolVersion
}

// NewPolFamily draws a family over a random prefix of PolPool.
func NewPolFamily(rng *rand.Rand, versions, maxSlots int, hooks bool) PolFamily {
	f := PolFamily{Name: "fam"}
	perm := rng.Perm(len(PolPool))
	if maxSlots > len(perm) {
		maxSlots = len(perm)
	}
	pool := perm[:maxSlots]
	// a sticky policy per slot that versions mostly follow, so that policies persist across
	// versions often enough to matter and still toggle
	sticky := map[int]string{}
	for _, s := range pool {
		switch x := rng.Intn(100); {
		case x < 22:
			sticky[s] = "keep"
		case x < 38:
			sticky[s] = "delete"
		}
	}
	twinSlot := map[int]bool{}
	for _, s := range pool {
		twinSlot[s] = rng.Intn(100) < 35
	}
	for v := 0; v < versions; v++ {
		vs := PolVersion{Content: map[int]string{}, Policy: map[int]string{}, APIVer: map[int]string{}, Twin: map[int]string{}, DefK: fmt.Sprintf("d%d", rng.Intn(3))}
		for _, s := range pool {
			if rng.Intn(100) < 60 {
				vs.Slots = append(vs.Slots, s)
			}
		}
		if len(vs.Slots) == 0 {
			vs.Slots = []int{pool[rng.Intn(len(pool))]}
		}
		sort.Ints(vs.Slots)
		for _, s := range vs.Slots {
			vs.Content[s] = fmt.Sprintf("c%d", rng.Intn(3))
			p := sticky[s]
			if rng.Intn(100) < 25 {
				p = []string{"", "keep", "delete"}[rng.Intn(3)]
			}
			if p != "" {
				vs.Policy[s] = p
			}
			if alts := AltAPIVersions[PolPool[s].Kind]; len(alts) > 0 {
				vs.APIVer[s] = alts[rng.Intn(len(alts))]
			}
			// twins: not for cluster-scoped kinds, nor where a bystander already lives under that name in ns2
			if sl := PolPool[s]; sl.Kind != "ClusterRole" && sl.Suffix != "cm-a" && sl.Suffix != "sec" && twinSlot[s] {
				if rng.Intn(100) < 70 {
					tp := []string{"", "keep", "delete"}[rng.Intn(3)]
					if rng.Intn(2) == 0 {
						// exactly one of the pair carries keep
						if vs.Policy[s] == "keep" {
							tp = ""
						} else {
							tp = "keep"
						}
					}
					vs.Twin[s] = tp
				}
			}
		}
		if hooks {
			n := rng.Intn(3)
			events := []string{"pre-install", "post-install", "pre-upgrade", "post-upgrade", "pre-rollback", "post-rollback", "pre-delete", "post-delete"}
			policies := [][]string{nil, {"before-hook-creation"}, {"hook-succeeded"}, {"hook-failed"}, {"before-hook-creation", "hook-succeeded"}}
			for i := 0; i < n; i++ {
				h := HookSpec{Name: fmt.Sprintf("hook-%d", i), Kind: []string{"ConfigMap", "Job", "Pod", "ServiceAccount"}[rng.Intn(4)]}
				seen := map[string]bool{}
				for j, ne := 0, 1+rng.Intn(3); j < ne; j++ {
					if e := events[rng.Intn(len(events))]; !seen[e] {
						seen[e] = true
						h.Events = append(h.Events, e)
					}
				}
				if rng.Intn(2) == 0 {
					h.Weight = fmt.Sprint(rng.Intn(5) - 2)
				}
				h.Policies = policies[rng.Intn(len(policies))]
				vs.Hooks = append(vs.Hooks, h)
			}
		}
		f.Versions = append(f.Versions, vs)
	}
	return f
}

func (f PolFamily) Files(v int) Files {
	vs := f.Versions[v]
	out := Files{
		"Chart.yaml":  fmt.Sprintf("apiVersion: v2\nname: %s\nversion: 0.%d.0\n", f.Name, v+1),
		"values.yaml": fmt.Sprintf("k: %s\n", vs.DefK),
	}
	for _, s := range vs.Slots {
		sl := PolPool[s]
		var ann map[string]string
		if p := vs.Policy[s]; p != "" {
			ann = map[string]string{ref.PolicyAnno: p}
		}
		out["templates/"+sl.Suffix+".yaml"] = WithAPIVersion(PolYAML(sl.Kind, "{{ .Release.Name }}-"+sl.Suffix, vs.Content[s], "{{ .Values.k | quote }}", ann), vs.APIVer[s])
		if tp, ok := vs.Twin[s]; ok {
			var tann map[string]string
			if tp != "" {
				tann = map[string]string{ref.PolicyAnno: tp}
			}
			y := WithAPIVersion(PolYAML(sl.Kind, "{{ .Release.Name }}-"+sl.Suffix, vs.Content[s]+"t", "{{ .Values.k | quote }}", tann), vs.APIVer[s])
			out["templates/"+sl.Suffix+"-twin.yaml"] = strings.Replace(y, "metadata:\n", "metadata:\n  namespace: "+DriftOtherNS+"\n", 1)
		}
	}
	for _, h := range vs.Hooks {
		nameExpr := "{{ .Release.Name }}-" + h.Name
		bhc := len(h.Policies) == 0
		for _, p := range h.Policies {
			if p == "before-hook-creation" {
				bhc = true
			}
		}
		if !bhc {
			nameExpr += "-r{{ .Release.Revision }}"
		}
		out["templates/"+h.Name+".yaml"] = h.YAML(nameExpr)
	}
	return out
}

func (f PolFamily) Describe(v int) string {
	vs := f.Versions[v]
	var p []string
	for _, s := range vs.Slots {
		x := PolPool[s].Suffix + "=" + vs.Content[s]
		if av := vs.APIVer[s]; av != "" {
			x += "@" + av[strings.LastIndex(av, "/")+1:]
		}
		if tp, ok := vs.Twin[s]; ok {
			x += "+twin-in-" + DriftOtherNS
			if tp != "" {
				x += "(" + tp + ")"
			}
		}
		if pol := vs.Policy[s]; pol != "" {
			x += "(" + pol + ")"
		}
		p = append(p, x)
	}
	for _, h := range vs.Hooks {
		p = append(p, fmt.Sprintf("%s[%s %s %s]", h.Name, h.Kind, strings.Join(h.Events, ","), strings.Join(h.Policies, ",")))
	}
	return fmt.Sprintf("c%d{%s}", v, strings.Join(p, " "))
}

// ---------------------------------------------------------------- drift

// Drift is one out-of-band edit, applied before an op to the live object of a pool slot.
//
//	field        change the value of a manifest-specified field           (typed kinds only)
//	field-remove remove a manifest-specified field                        (typed kinds only)
//	foreign      add labels / annotations / fields the manifest does not mention
//	delete       delete the live object
//	keep-add     set helm.sh/resource-policy: keep on the live object     (custom kinds: only when absent)
//	keep-remove  remove the annotation from the live object               (typed kinds only)
//
// Custom kinds (example.com) get no edits on manifest-specified fields: helm documents a
// two-way merge for unstructured objects, so drift correction is not promised there.
type Drift struct {
	Kind string `json:"kind"`
	Slot int    `json:"slot"`
	Pick int    `json:"pick"`
}

var DriftKinds = []string{"field", "field-remove", "foreign", "delete", "keep-add", "keep-remove"}

type edit struct {
	path []any // string = map key, int = list index
	val  any
}

var fieldEdits = map[string][]edit{
	"ConfigMap":               {{[]any{"data", "ver"}, "oob"}, {[]any{"data", "k"}, "oob"}, {[]any{"metadata", "labels", "app"}, "oob"}},
	"Secret":                  {{[]any{"stringData", "ver"}, "oob"}, {[]any{"type"}, "oob/type"}, {[]any{"metadata", "labels", "app"}, "oob"}},
	"Service":                 {{[]any{"spec", "ports", 0, "targetPort"}, float64(9999)}, {[]any{"spec", "selector", "app"}, "oob"}, {[]any{"spec", "ports", 1, "name"}, "oob"}},
	"ServiceAccount":          {{[]any{"automountServiceAccountToken"}, true}, {[]any{"metadata", "labels", "app"}, "oob"}},
	"Deployment":              {{[]any{"spec", "replicas"}, float64(7)}, {[]any{"spec", "template", "spec", "containers", 0, "image"}, "oob:1"}, {[]any{"spec", "template", "spec", "containers", 0, "env", 0, "value"}, "oob"}, {[]any{"spec", "template", "metadata", "labels", "app"}, "oob"}},
	"StatefulSet":             {{[]any{"spec", "replicas"}, float64(5)}, {[]any{"spec", "template", "spec", "containers", 0, "image"}, "oob:1"}, {[]any{"spec", "serviceName"}, "oob"}},
	"Job":                     {{[]any{"spec", "backoffLimit"}, float64(9)}, {[]any{"spec", "template", "spec", "containers", 0, "image"}, "oob:1"}},
	"PersistentVolumeClaim":   {{[]any{"spec", "resources", "requests", "storage"}, "9Gi"}, {[]any{"spec", "accessModes"}, []any{"ReadOnlyMany", "ReadWriteOnce"}}},
	"Role":                    {{[]any{"rules", 0, "verbs"}, []any{"get"}}, {[]any{"rules", 0, "resources"}, []any{"configmaps", "secrets"}}},
	"ClusterRole":             {{[]any{"rules", 0, "verbs"}, []any{"get", "list", "delete"}}, {[]any{"metadata", "labels", "app"}, "oob"}},
	"NetworkPolicy":           {{[]any{"spec", "podSelector", "matchLabels", "app"}, "oob"}, {[]any{"spec", "policyTypes"}, []any{"Egress"}}},
	"HorizontalPodAutoscaler": {{[]any{"spec", "maxReplicas"}, float64(17)}, {[]any{"spec", "scaleTargetRef", "name"}, "oob"}, {[]any{"metadata", "labels", "app"}, "oob"}},
}

var fieldRemovals = map[string][][]any{
	"ConfigMap":               {{"data", "k"}, {"metadata", "labels", "app"}},
	"Secret":                  {{"stringData", "k"}, {"metadata", "labels"}},
	"Service":                 {{"spec", "selector"}, {"spec", "ports", 0, "targetPort"}},
	"ServiceAccount":          {{"automountServiceAccountToken"}},
	"Deployment":              {{"spec", "replicas"}, {"spec", "template", "spec", "containers", 0, "env"}},
	"StatefulSet":             {{"spec", "serviceName"}},
	"Job":                     {{"spec", "backoffLimit"}},
	"PersistentVolumeClaim":   {{"spec", "accessModes"}},
	"Role":                    {{"rules"}},
	"ClusterRole":             {{"metadata", "labels", "app"}},
	"NetworkPolicy":           {{"spec", "policyTypes"}},
	"HorizontalPodAutoscaler": {{"spec", "minReplicas"}, {"metadata", "labels", "app"}},
}

func walk(o any, path []any) (parent any, last any, ok bool) {
	cur := o
	for i, p := range path {
		if i == len(path)-1 {
			return cur, p, true
		}
		switch k := p.(type) {
		case string:
			m, isMap := cur.(map[string]any)
			if !isMap {
				return nil, nil, false
			}
			cur = m[k]
		case int:
			l, isList := cur.([]any)
			if !isList || k >= len(l) {
				return nil, nil, false
			}
			cur = l[k]
		}
	}
	return nil, nil, false
}

func setPath(o map[string]any, path []any, val any) bool {
	parent, last, ok := walk(o, path)
	if !ok {
		return false
	}
	switch k := last.(type) {
	case string:
		m, isMap := parent.(map[string]any)
		if !isMap {
			return false
		}
		m[k] = val
		return true
	case int:
		l, isList := parent.([]any)
		if !isList || k >= len(l) {
			return false
		}
		l[k] = val
		return true
	}
	return false
}

func delPath(o map[string]any, path []any) bool {
	parent, last, ok := walk(o, path)
	if !ok {
		return false
	}
	if k, isStr := last.(string); isStr {
		if m, isMap := parent.(map[string]any); isMap {
			if _, has := m[k]; has {
				delete(m, k)
				return true
			}
		}
	}
	return false
}

func metaMap(o map[string]any, which string) map[string]any {
	md, _ := o["metadata"].(map[string]any)
	if md == nil {
		return nil
	}
	m, _ := md[which].(map[string]any)
	if m == nil {
		m = map[string]any{}
		md[which] = m
	}
	return m
}

// ApplyDrift performs the edit on the store; it returns false when it did not apply (object
// absent, kind excluded, nothing to change).
func ApplyDrift(s *sim.Server, ns, rel string, d Drift) (key string, applied bool) {
	sl := PolPool[d.Slot]
	var res *sim.Res
	for i := range sim.Resources {
		if sim.Resources[i].Kind == sl.Kind {
			res = &sim.Resources[i]
		}
	}
	if res == nil {
		return "", false
	}
	ons := ns
	if !res.Namespaced {
		ons = ""
	}
	key = sim.Key(res.Group, res.Plural, ons, rel+"-"+sl.Suffix)
	custom := res.Group == "example.com"
	switch d.Kind {
	case "delete":
		return key, s.Remove(key)
	case "field":
		eds := fieldEdits[sl.Kind]
		if custom || len(eds) == 0 {
			return key, false
		}
		e := eds[d.Pick%len(eds)]
		s.Edit(key, func(o map[string]any) { applied = setPath(o, e.path, e.val) })
		return key, applied
	case "field-remove":
		rs := fieldRemovals[sl.Kind]
		if custom || len(rs) == 0 {
			return key, false
		}
		p := rs[d.Pick%len(rs)]
		s.Edit(key, func(o map[string]any) { applied = delPath(o, p) })
		return key, applied
	case "foreign":
		s.Edit(key, func(o map[string]any) {
			if l := metaMap(o, "labels"); l != nil {
				l["oob/added"] = "yes"
				applied = true
			}
			if a := metaMap(o, "annotations"); a != nil {
				a["oob/note"] = fmt.Sprintf("n%d", d.Pick)
			}
			if sl.Kind == "ConfigMap" {
				if data, ok := o["data"].(map[string]any); ok {
					data["oobextra"] = "x"
				}
			}
			o["oobField"] = map[string]any{"a": float64(d.Pick)}
		})
		return key, applied
	case "keep-add":
		s.Edit(key, func(o map[string]any) {
			a := metaMap(o, "annotations")
			if a == nil {
				return
			}
			if _, has := a[ref.PolicyAnno]; has && custom {
				return
			}
			if a[ref.PolicyAnno] != "keep" {
				a[ref.PolicyAnno] = "keep"
				applied = true
			}
		})
		return key, applied
	case "keep-remove":
		if custom {
			return key, false
		}
		s.Edit(key, func(o map[string]any) {
			a := metaMap(o, "annotations")
			if _, has := a[ref.PolicyAnno]; has {
				delete(a, ref.PolicyAnno)
				applied = true
			}
		})
		return key, applied
	}
	return key, false
}

// ---------------------------------------------------------------- histories

// Step is one op of a drift history with the edits applied before it and an optional plan
// that makes the op fail (failed ops are part of the histories the properties quantify over).
type Step struct {
	Op     env.Op  `json:"op"`
	Drifts []Drift `json:"drifts,omitempty"`
	// Fail: "" | "wait" (resources never become ready: everything was applied) |
	// "hook" (first hook watch fails) | "fault:N" (the N-th resource mutation answers 500)
	Fail string `json:"fail,omitempty"`
}

func (s Step) String() string {
	x := s.Op.String()
	if s.Fail != "" {
		x += "!" + s.Fail
	}
	if len(s.Drifts) > 0 {
		var d []string
		for _, dr := range s.Drifts {
			d = append(d, dr.Kind+"@"+PolPool[dr.Slot].Suffix)
		}
		x = "[" + strings.Join(d, ",") + "] " + x
	}
	return x
}

// DriftCase describes one history (serialisable; the family is re-derived from FSeed).
type DriftCase struct {
	FSeed    int64  `json:"fseed"`
	Driver   string `json:"driver"`
	Versions int    `json:"versions"`
	MaxSlots int    `json:"maxSlots"`
	Steps    []Step `json:"steps"`
	NBystand int    `json:"bystanders"`
}

// NewDriftCase draws a history of n ops.
func NewDriftCase(rng *rand.Rand, n int, driver string) DriftCase {
	dc := DriftCase{FSeed: rng.Int63(), Driver: driver, Versions: 4 + rng.Intn(2), MaxSlots: 5 + rng.Intn(5), NBystand: 3 + rng.Intn(4)}
	fam := dc.Family()
	pool := map[int]bool{}
	for _, v := range fam.Versions {
		for _, s := range v.Slots {
			pool[s] = true
		}
	}
	var slots []int
	for s := range pool {
		slots = append(slots, s)
	}
	sort.Ints(slots)
	installed, keptHistory := false, false
	revs := 0
	limit := []int{0, 0, 0, 3, 5}[rng.Intn(5)]
	vals := func() map[string]any {
		if rng.Intn(3) == 0 {
			return nil
		}
		return map[string]any{"k": []string{"ua", "ub", "uc"}[rng.Intn(3)]}
	}
	for len(dc.Steps) < n {
		var st Step
		switch {
		case !installed:
			st.Op = env.Op{Kind: "install", Chart: rng.Intn(dc.Versions), Vals: vals(), Replace: keptHistory}
			installed, keptHistory = true, false
			revs++
		default:
			switch x := rng.Intn(100); {
			case x < 55:
				st.Op = env.Op{Kind: "upgrade", Chart: rng.Intn(dc.Versions), Vals: vals(), MaxHistory: limit}
				st.Op.Force = rng.Intn(7) == 0
				st.Op.CleanupOnFail = rng.Intn(5) == 0
				st.Op.Atomic = rng.Intn(10) == 0
				revs++
			case x < 80 && revs >= 2:
				st.Op = env.Op{Kind: "rollback", MaxHistory: limit}
				if rng.Intn(3) > 0 {
					st.Op.ToRev = 1 + rng.Intn(revs)
				}
				st.Op.Force = rng.Intn(8) == 0
				st.Op.CleanupOnFail = rng.Intn(5) == 0
				revs++
			case x < 94:
				st.Op = env.Op{Kind: "uninstall", KeepHistory: rng.Intn(2) == 0}
				installed = false
				keptHistory = st.Op.KeepHistory
				if !st.Op.KeepHistory {
					revs = 0
				}
			default:
				st.Op = env.Op{Kind: "upgrade", Chart: rng.Intn(dc.Versions), Vals: vals(), MaxHistory: limit}
				revs++
			}
		}
		st.Op.NoHooks = rng.Intn(4) == 0
		if st.Op.Kind != "uninstall" && rng.Intn(100) < 22 {
			switch rng.Intn(4) {
			case 0:
				st.Fail = "wait"
			case 1:
				st.Fail = "hook"
			default:
				st.Fail = fmt.Sprintf("fault:%d", 1+rng.Intn(4))
			}
		}
		if len(dc.Steps) > 0 {
			for j, nd := 0, rng.Intn(4); j < nd; j++ {
				st.Drifts = append(st.Drifts, Drift{Kind: DriftKinds[rng.Intn(len(DriftKinds))], Slot: slots[rng.Intn(len(slots))], Pick: rng.Intn(12)})
			}
		}
		dc.Steps = append(dc.Steps, st)
	}
	return dc
}

func (dc DriftCase) Family() PolFamily {
	return NewPolFamily(rand.New(rand.NewSource(dc.FSeed)), dc.Versions, dc.MaxSlots, true)
}

func (dc DriftCase) String() string {
	var p []string
	for _, s := range dc.Steps {
		p = append(p, s.String())
	}
	return strings.Join(p, " ; ")
}

const (
	DriftNS      = "ns1"
	DriftRel     = "rel"
	DriftOtherNS = "ns2"
	DriftOther   = "other"
)

// otherChart is the chart of the second release living in the same namespace.
func otherChart() Files {
	return Files{
		"Chart.yaml":          "apiVersion: v2\nname: otherchart\nversion: 1.0.0\n",
		"values.yaml":         "k: o\n",
		"templates/cm.yaml":   PolYAML("ConfigMap", "{{ .Release.Name }}-cm-a", "o1", "{{ .Values.k | quote }}", nil),
		"templates/dep.yaml":  PolYAML("Deployment", "{{ .Release.Name }}-dep", "o1", "{{ .Values.k | quote }}", nil),
		"templates/wid.yaml":  PolYAML("Widget", "{{ .Release.Name }}-wid", "o1", "{{ .Values.k | quote }}", nil),
		"templates/role.yaml": PolYAML("ClusterRole", "{{ .Release.Name }}-crole", "o1", "{{ .Values.k | quote }}", nil),
	}
}

// PutBystanders stores n unrelated objects: unlabelled ones, one that shares its name with a
// release resource but has another kind, one with the same kind and name in another namespace
// claiming the same release name there, and objects labelled for another release.
func PutBystanders(s *sim.Server, n int) []string {
	meta := func(name, ns string, labels, ann map[string]any) map[string]any {
		m := map[string]any{"name": name}
		if ns != "" {
			m["namespace"] = ns
		}
		if labels != nil {
			m["labels"] = labels
		}
		if ann != nil {
			m["annotations"] = ann
		}
		return m
	}
	helm := map[string]any{ref.ManagedByLabel: "Helm"}
	objs := []map[string]any{
		{"apiVersion": "v1", "kind": "ConfigMap", "metadata": meta("plain-cm", DriftNS, nil, nil), "data": map[string]any{"a": "1"}},
		{"apiVersion": "v1", "kind": "Service", "metadata": meta(DriftRel+"-cm-a", DriftNS, map[string]any{"app": "c0"}, nil), "spec": map[string]any{"ports": []any{map[string]any{"port": float64(1)}}}},
		{"apiVersion": "v1", "kind": "ConfigMap", "metadata": meta(DriftRel+"-cm-a", DriftOtherNS, helm, map[string]any{ref.RelNameAnno: DriftRel, ref.RelNamespaceAnn: DriftOtherNS}), "data": map[string]any{"ver": "x"}},
		{"apiVersion": "example.com/v1", "kind": "Widget", "metadata": meta("plain-wid", DriftNS, nil, map[string]any{ref.PolicyAnno: "delete"}), "spec": map[string]any{"size": "s"}},
		{"apiVersion": "apps/v1", "kind": "Deployment", "metadata": meta("third-dep", DriftNS, helm, map[string]any{ref.RelNameAnno: "third", ref.RelNamespaceAnn: DriftNS}), "spec": map[string]any{"replicas": float64(1)}},
		{"apiVersion": "v1", "kind": "Secret", "metadata": meta(DriftRel+"-sec", DriftOtherNS, nil, nil), "stringData": map[string]any{"p": "q"}},
	}
	var keys []string
	for i := 0; i < n && i < len(objs); i++ {
		k, err := s.Put(objs[i])
		if err != nil {
			panic(err)
		}
		keys = append(keys, k)
	}
	return keys
}

// NameTracker accumulates the store keys named in a manifest or hook of any revision of one
// release: from every ledger handed to Add, and from the raw ledger read at the moment of every
// resource DELETE request of the watched agents (a revision record may exist only while the op
// runs, e.g. install --atomic that fails and purges its own record).
type NameTracker struct {
	mu    sync.Mutex
	named map[string]bool
	hooks map[string]bool // the subset named by hooks
	ns    string
}

// TrackNames installs the tracker as the simulator's Gate.
func TrackNames(w *env.World, rel, ns, agentPrefix string) *NameTracker {
	t := &NameTracker{named: map[string]bool{}, hooks: map[string]bool{}, ns: ns}
	w.Sim.Gate = func(r *sim.Req) {
		if DriftTrace != nil {
			DriftTrace(r)
		}
		if r.Method == "DELETE" && r.Class == "mutation" && strings.HasPrefix(r.Agent, agentPrefix) {
			recs, _ := w.Ledger(rel)
			t.Add(recs)
		}
	}
	return t
}

func (t *NameTracker) Add(recs []env.Rec) {
	t.mu.Lock()
	ref.ReleaseObjectKeys(t.named, recs, t.ns)
	for _, r := range recs {
		for _, d := range ref.HookDocs(r, t.ns) {
			if d.Key != "" {
				t.hooks[d.Key] = true
			}
		}
	}
	t.mu.Unlock()
}

// HookSnapshot returns the keys named by hooks of any revision seen so far.
func (t *NameTracker) HookSnapshot() map[string]bool {
	t.mu.Lock()
	defer t.mu.Unlock()
	out := make(map[string]bool, len(t.hooks))
	for k := range t.hooks {
		out[k] = true
	}
	return out
}

func (t *NameTracker) Snapshot() map[string]bool {
	t.mu.Lock()
	defer t.mu.Unlock()
	out := make(map[string]bool, len(t.named))
	for k := range t.named {
		out[k] = true
	}
	return out
}

// EventKey maps a logged request to the store key it addressed ("" for lists).
func EventKey(e sim.Event) string {
	if e.Name == "" {
		return ""
	}
	for i := range sim.Resources {
		if r := &sim.Resources[i]; r.Kind == e.Kind {
			ns := e.NS
			if !r.Namespaced {
				ns = ""
			}
			return sim.Key(r.Group, r.Plural, ns, e.Name)
		}
	}
	return ""
}

// StepObs is what was observed around one op of a drift history.
type StepObs struct {
	I        int
	Step     Step
	Agent    string
	S0, S1   map[string]string // store snapshots before (after the drift edits) and after the op
	L0, L1   []env.Rec         // raw ledgers of the release before and after
	Res      env.OpResult
	Events   []sim.Event // done-events of the op's agent, in order
	Reject   bool        // the server rejected a request of the op (injected fault)
	Scripted bool        // the scripted waiter failed a wait / hook watch of the op
	// Drifted: store key -> drift kinds applied to that object since the last op that succeeded
	Drifted map[string][]string
	// DriftsNow: drift kinds applied right before this op
	DriftsNow []string
	// Named: every store key named in a manifest or hook of any revision of the release seen so
	// far in this history (ledger before/after every op, and at the time of every DELETE request)
	Named map[string]bool
	// NamedHooks: the subset of Named that hooks name
	NamedHooks map[string]bool
	// OtherL0/OtherL1: ledger of the second release
	OtherL0, OtherL1 []env.Rec
}

// Success: the op reported success and the server accepted every request it made.
func (o *StepObs) Success() bool { return o.Res.Err == nil && !o.Reject }

// DriftTrace, when set (replay mode), sees every non-discovery request before it is handled.
var DriftTrace func(r *sim.Req)

// RunDriftHistory executes the history and calls each after every op.
func RunDriftHistory(dc DriftCase, each func(w *env.World, o *StepObs)) *env.World {
	fam := dc.Family()
	w := env.NewWorld(dc.Driver, DriftNS)
	PutBystanders(w.Sim, dc.NBystand)
	w.Exec("other-install", DriftOther, env.Op{Kind: "install"}, otherChart().Build())
	nt := TrackNames(w, DriftRel, DriftNS, "op")
	drifted := map[string][]string{}
	for i, st := range dc.Steps {
		o := &StepObs{I: i, Step: st, Agent: fmt.Sprintf("op%d", i)}
		for _, d := range st.Drifts {
			if key, ok := ApplyDrift(w.Sim, DriftNS, DriftRel, d); ok {
				drifted[key] = append(drifted[key], d.Kind)
				o.DriftsNow = append(o.DriftsNow, d.Kind)
				w.Sim.NoteEvent(sim.Event{Agent: "oob", What: "oob", Note: d.Kind, Names: []string{key}})
			}
		}
		o.Drifted = map[string][]string{}
		for k, v := range drifted {
			o.Drifted[k] = append([]string(nil), v...)
		}
		o.S0 = w.Sim.Snapshot()
		o.L0, _ = w.Ledger(DriftRel)
		o.OtherL0, _ = w.Ledger(DriftOther)
		nt.Add(o.L0)
		w.Script.Reset()
		w.Sim.ClearFaults()
		switch {
		case st.Fail == "wait":
			w.Script.FailWaitNth, w.Script.FailAgent = 1, o.Agent
		case st.Fail == "hook":
			w.Script.FailWatchNth, w.Script.FailAgent = 1, o.Agent
		case strings.HasPrefix(st.Fail, "fault:"):
			var n int
			fmt.Sscanf(st.Fail, "fault:%d", &n)
			agent := o.Agent
			w.Sim.AddFault(&sim.Fault{Match: func(r *sim.Req) bool { return r.Agent == agent && r.Class == "mutation" }, Nth: n, Code: 500, Once: true})
		}
		o.Res = w.Exec(o.Agent, DriftRel, st.Op, fam.Files(st.Op.Chart).Build())
		w.Sim.ClearFaults()
		w.Script.Reset()
		o.S1 = w.Sim.Snapshot()
		o.L1, _ = w.Ledger(DriftRel)
		o.OtherL1, _ = w.Ledger(DriftOther)
		for _, e := range w.Sim.Log() {
			if e.Agent != o.Agent {
				continue
			}
			if e.Phase == "done" {
				o.Events = append(o.Events, e)
				if e.Injected || e.Cut {
					o.Reject = true
				}
			}
			if e.Phase == "note" && e.Err != "" {
				o.Scripted = true
			}
		}
		nt.Add(o.L1)
		o.Named = nt.Snapshot()
		o.NamedHooks = nt.HookSnapshot()
		each(w, o)
		if o.Success() {
			drifted = map[string][]string{}
		}
	}
	return w
}
