package gen

// Seeded generators for values trees and structured --set operations (C04, C11, C13).
// All trees are in ref.Canon form: map[string]any, []any, string, bool, nil, float64.

import (
	"fmt"
	"math/rand"
	"sort"
	"strings"

	"helm.sh/helm/v4/verifh/ref"
)

// PlainKeys / SpecialKeys: a small shared alphabet so that collisions between sources are the norm.
var PlainKeys = []string{"a", "b", "c", "k1", "m", "l"}
var SpecialKeys = []string{"x.y", "p,q", "e=f", "br[0]", "sp ace", "ünï", `b\s`}

// LiteralSafe reports whether k can be written as a --set-literal key (no escapes exist there).
func LiteralSafe(k string) bool { return !strings.ContainsAny(k, ".=[") && k != "" }

// TreeOpts steers Tree.
type TreeOpts struct {
	Keys    []string
	Depth   int  // maximum nesting of maps
	MaxKeys int  // keys per map (0 = 4)
	Nulls   bool // generate explicit nulls
	Lists   bool
	// Leaf, if set, produces string leaves (sentinels); otherwise scalars of mixed types.
	Leaf func() any
	// Reserved keys are never generated (subchart names, "global", ...).
	Reserved map[string]bool
}

func SortedKeys[V any](m map[string]V) []string {
	ks := make([]string, 0, len(m))
	for k := range m {
		ks = append(ks, k)
	}
	sort.Strings(ks)
	return ks
}

var words = []string{"red", "green", "blue", "on", "off", "x1", "y2", "zeta", "007", "0123", "v1.2", "a b", "ünï"}

// Scalar returns a mixed scalar (string / int / bool / leading-zero string / null if nulls).
func Scalar(rng *rand.Rand, nulls bool) any {
	switch x := rng.Intn(10); {
	case x < 4:
		return Pick(rng, words)
	case x < 7:
		return float64(rng.Intn(40) - 5)
	case x < 8:
		return rng.Intn(2) == 0
	case x < 9 && nulls:
		return nil
	}
	return fmt.Sprintf("s%d", rng.Intn(9))
}

// Tree generates a values tree.
func Tree(rng *rand.Rand, o TreeOpts) map[string]any {
	if o.MaxKeys == 0 {
		o.MaxKeys = 4
	}
	out := map[string]any{}
	n := rng.Intn(o.MaxKeys + 1)
	for i := 0; i < n; i++ {
		k := Pick(rng, o.Keys)
		if o.Reserved[k] {
			continue
		}
		out[k] = treeVal(rng, o, k)
	}
	return out
}

func leaf(rng *rand.Rand, o TreeOpts) any {
	if o.Leaf != nil {
		if o.Nulls && rng.Intn(8) == 0 {
			return nil
		}
		return o.Leaf()
	}
	return Scalar(rng, o.Nulls)
}

func treeVal(rng *rand.Rand, o TreeOpts, key string) any {
	// keys have a preferred kind so that sources mostly agree in shape; 15% type flips
	kind := "scalar"
	switch key {
	case "m", "a":
		kind = "map"
	case "l":
		kind = "list"
	}
	if rng.Intn(100) < 15 {
		kind = Pick(rng, []string{"scalar", "map", "list"})
	}
	if kind == "list" && !o.Lists {
		kind = "scalar"
	}
	switch {
	case kind == "map" && o.Depth > 1:
		o2 := o
		o2.Depth--
		o2.MaxKeys = 3
		return Tree(rng, o2)
	case kind == "list":
		n := rng.Intn(4)
		l := make([]any, n)
		for i := range l {
			if rng.Intn(4) == 0 && o.Depth > 1 {
				o2 := o
				o2.Depth = 1
				o2.MaxKeys = 2
				o2.Lists = false
				l[i] = Tree(rng, o2)
			} else {
				l[i] = leaf(rng, o)
				if l[i] == nil {
					l[i] = "li"
				}
			}
		}
		return l
	}
	return leaf(rng, o)
}

// ---------------------------------------------------------------- set operations

// SetValue generates a value expressible in the given flag family.
func SetValue(rng *rand.Rand, family string) (val any, text string) {
	switch family {
	case "set":
		switch x := rng.Intn(26); {
		case x < 4:
			return float64(rng.Intn(200) - 20), ""
		case x < 5:
			return float64(rng.Intn(2)), "" // 0 and 1 are integers, not booleans
		case x < 7:
			b := rng.Intn(2) == 0
			return b, Pick(rng, map[bool][]string{true: {"true", "TRUE", "True", "tRuE"}, false: {"false", "FALSE", "False", "fAlSe"}}[b])
		case x < 9:
			return nil, Pick(rng, []string{"null", "NULL", "Null", "nUlL"})
		case x < 11:
			return Pick(rng, []string{"007", "0123", "00", "0x1F", "08", "01", "0777", "000"}), "" // leading zero: stays a string
		case x < 12:
			return "", ""
		case x < 15:
			return Pick(rng, []string{"a,b", "x=y", "sp ace", "{brace", "ünï", `back\slash`, "a.b", "tr}ail", "q[1]", `,lead`, `end\`}), ""
		case x < 18:
			return setList(rng)
		case x < 23:
			// look-alikes of typed literals: all of them are plain strings
			return Pick(rng, lookAlikes), ""
		}
		return Pick(rng, []string{"red", "green", "blue", "on", "off", "x1", "zeta", "v1"}), ""
	case "set-string":
		strs := []string{"true", "false", "null", "123", "0", "1", "007", "", "plain", "a,b", "x=y", "ünï", `b\s`, "{br", "TRUE", "tRuE", "False", "NULL", "nUlL", "-5"}
		strs = append(strs, lookAlikes...)
		if rng.Intn(6) == 0 {
			n := 1 + rng.Intn(3)
			l := make([]any, n)
			for i := range l {
				l[i] = Pick(rng, append([]string{"i,j", "w"}, strs[:8]...))
				if rng.Intn(2) == 0 {
					l[i] = Pick(rng, strs[13:])
				}
				if l[i] == "" {
					l[i] = "e"
				}
			}
			return l, ""
		}
		return Pick(rng, strs), ""
	case "set-json":
		switch x := rng.Intn(10); {
		case x < 2:
			return float64(rng.Intn(100)), ""
		case x < 4:
			return Pick(rng, []string{"js", "with,comma", "q\"uote", "a=b", "ünï", ""}), ""
		case x < 5:
			return rng.Intn(2) == 0, ""
		case x < 6:
			if rng.Intn(2) == 0 {
				return nil, "empty"
			}
			return nil, ""
		case x < 8:
			return []any{float64(rng.Intn(9)), Pick(rng, words), map[string]any{"in": "list"}}[:1+rng.Intn(3)], ""
		}
		return Tree(rng, TreeOpts{Keys: PlainKeys, Depth: 2, MaxKeys: 2, Nulls: true, Lists: true}), ""
	case "set-literal":
		return Pick(rng, []string{"lit", "a,b,c", "{x,y}", `back\slash`, "k=v", "true", "123", "", "null", "sp ace ", "ünï", "a.b[0]"}), ""
	case "set-file":
		return Pick(rng, []string{"file content\n", "line1\nline2\n", "", "true", "42", "a,b={c}", "ünï\n"}), ""
	}
	panic("unknown family " + family)
}

// listWithText carries per-item spellings of a generated {a,b} list out of SetValue.
type listWithText struct {
	items []any
	texts []string
}

// setList generates a {a,b} list for --set: ints, strings needing escapes, booleans / nulls in
// mixed case, and look-alikes of typed literals (which must stay strings) in item position.
func setList(rng *rand.Rand) (any, string) {
	n := 1 + rng.Intn(3)
	l := listWithText{items: make([]any, n), texts: make([]string, n)}
	for i := range l.items {
		switch rng.Intn(8) {
		case 0:
			l.items[i] = float64(rng.Intn(50))
		case 1:
			l.items[i] = Pick(rng, []string{"i,j", "cl}ose", "007", `b\s`, "01"})
		case 2:
			b := rng.Intn(2) == 0
			l.items[i] = b
			l.texts[i] = Pick(rng, map[bool][]string{true: {"true", "TRUE", "tRuE"}, false: {"false", "False", "fAlSe"}}[b])
		case 3:
			l.items[i] = nil
			l.texts[i] = Pick(rng, []string{"null", "NULL", "nUlL"})
		case 4, 5:
			l.items[i] = Pick(rng, lookAlikes)
		default:
			l.items[i] = Pick(rng, words[:8])
		}
	}
	return l, ""
}

var lookAlikes = []string{"t", "T", "f", "F", "y", "n", "yes", "no", "Yes", "NO", "on", "off", "On", "OFF", "~", "nil", "none", "tru", "falsy", "nul"}

func pickKey(rng *rand.Rand, existing []string, family string, special bool) string {
	ok := func(k string) bool { return family != "set-literal" || LiteralSafe(k) }
	for try := 0; try < 8; try++ {
		var k string
		switch {
		case len(existing) > 0 && rng.Intn(100) < 65:
			k = Pick(rng, existing)
		case special && rng.Intn(100) < 35:
			k = Pick(rng, SpecialKeys)
		default:
			k = Pick(rng, PlainKeys)
		}
		if ok(k) {
			return k
		}
	}
	return Pick(rng, PlainKeys)
}

// SetOpFor generates one structured set-expression aimed at the current tree cur (collisions with
// existing data are the norm; paths follow the existing shape, so type conflicts are rare unless
// conflictPct asks for them).
func SetOpFor(rng *rand.Rand, cur map[string]any, family string, special bool, conflictPct int) ref.SetOp {
	var path []ref.Seg
	var node any = cur
	maxDepth := 1 + rng.Intn(4)
	for {
		switch t := node.(type) {
		case map[string]any:
			k := pickKey(rng, SortedKeys(t), family, special)
			path = append(path, ref.Seg{Key: k})
			ex, has := t[k]
			if !has {
				node = nil
				if len(path) < maxDepth && rng.Intn(100) < 40 {
					if rng.Intn(3) == 0 {
						node = []any{}
					} else {
						node = map[string]any{}
					}
					continue
				}
			} else {
				node = ex
				switch ex.(type) {
				case map[string]any, []any:
					if len(path) < maxDepth+1 && rng.Intn(100) < 75 {
						continue
					}
				default:
					if rng.Intn(100) < conflictPct {
						node = map[string]any{} // run through a scalar/null: type conflict
						continue
					}
				}
			}
		case []any:
			var i int
			switch x := rng.Intn(100); {
			case len(t) > 0 && x < 60:
				i = rng.Intn(len(t))
			case x < 88:
				i = len(t)
			default:
				i = len(t) + 1 + rng.Intn(3) // sparse
			}
			path = append(path, ref.Seg{Idx: i, IsIdx: true})
			if i < len(t) {
				node = t[i]
				switch t[i].(type) {
				case map[string]any, []any:
					if rng.Intn(100) < 70 {
						continue
					}
				case nil:
					if rng.Intn(100) < 40 {
						node = map[string]any{}
						continue
					}
				}
			} else if len(path) < maxDepth+1 && rng.Intn(100) < 35 {
				if rng.Intn(3) == 0 {
					node = []any{}
				} else {
					node = map[string]any{}
				}
				continue
			}
		}
		break
	}
	v, text := SetValue(rng, family)
	if lt, ok := v.(listWithText); ok {
		return ref.SetOp{Path: path, Val: lt.items, ItemText: lt.texts}
	}
	return ref.SetOp{Path: path, Val: v, Text: text}
}
