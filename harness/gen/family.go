// Package gen holds the seeded generators shared by several properties.
package gen

import (
	"fmt"
	"math/rand"
	"sort"
	"strings"

	chart "helm.sh/helm/v4/pkg/chart/v2"
	"helm.sh/helm/v4/pkg/chart/v2/loader"
)

// Files is a chart as a path -> content map (what the loader reads).
type Files map[string]string

// Build loads the files through the real loader, returning a fresh chart object.
func (f Files) Build() *chart.Chart {
	var names []string
	for n := range f {
		names = append(names, n)
	}
	sort.Strings(names)
	var bf []*loader.BufferedFile
	for _, n := range names {
		bf = append(bf, &loader.BufferedFile{Name: n, Data: []byte(f[n])})
	}
	c, err := loader.LoadFiles(bf)
	if err != nil {
		panic(fmt.Sprintf("generator produced an unloadable chart: %v", err))
	}
	return c
}

// Slot is one resource position of a chart family.
type Slot struct {
	Kind   string
	Suffix string
}

var SlotPool = []Slot{
	{"ConfigMap", "cm-a"}, {"ConfigMap", "cm-b"}, {"Secret", "sec"}, {"Service", "svc"}, {"ServiceAccount", "sa"},
	{"Deployment", "dep"}, {"Widget", "wid"}, {"PersistentVolumeClaim", "pvc"}, {"Role", "role"}, {"StatefulSet", "sts"},
	{"Job", "job"}, {"Gadget", "gad"}, {"NetworkPolicy", "np"},
}

// ResourceYAML renders the template text of one resource. content and valExpr end up in
// manifest-specified fields; ann are extra annotations.
func ResourceYAML(kind, nameExpr, content, valExpr string, ann map[string]string) string {
	var a string
	if len(ann) > 0 {
		var ks []string
		for k := range ann {
			ks = append(ks, k)
		}
		sort.Strings(ks)
		a = "  annotations:\n"
		for _, k := range ks {
			a += fmt.Sprintf("    %q: %q\n", k, ann[k])
		}
	}
	md := fmt.Sprintf("metadata:\n  name: %s\n  labels:\n    app: %s\n%s", nameExpr, content, a)
	switch kind {
	case "ConfigMap":
		return "apiVersion: v1\nkind: ConfigMap\n" + md + fmt.Sprintf("data:\n  ver: %q\n  k: %s\n", content, valExpr)
	case "Secret":
		return "apiVersion: v1\nkind: Secret\n" + md + fmt.Sprintf("type: Opaque\nstringData:\n  ver: %q\n  k: %s\n", content, valExpr)
	case "Service":
		return "apiVersion: v1\nkind: Service\n" + md + fmt.Sprintf("spec:\n  selector:\n    app: %s\n  ports:\n  - name: http\n    port: 80\n    targetPort: 8080\n  - name: %s\n    port: 81\n", content, content)
	case "ServiceAccount":
		return "apiVersion: v1\nkind: ServiceAccount\n" + md + "automountServiceAccountToken: false\n"
	case "Deployment":
		return "apiVersion: apps/v1\nkind: Deployment\n" + md + fmt.Sprintf("spec:\n  replicas: 2\n  selector:\n    matchLabels:\n      app: x\n  template:\n    metadata:\n      labels:\n        app: x\n    spec:\n      containers:\n      - name: main\n        image: \"img:%s\"\n        env:\n        - name: K\n          value: %s\n      - name: side-%s\n        image: side:1\n", content, valExpr, content)
	case "StatefulSet":
		return "apiVersion: apps/v1\nkind: StatefulSet\n" + md + fmt.Sprintf("spec:\n  serviceName: s\n  replicas: 1\n  selector:\n    matchLabels:\n      app: \"y\"\n  template:\n    metadata:\n      labels:\n        app: \"y\"\n    spec:\n      containers:\n      - name: main\n        image: \"img:%s\"\n", content)
	case "Job":
		return "apiVersion: batch/v1\nkind: Job\n" + md + fmt.Sprintf("spec:\n  backoffLimit: 3\n  template:\n    spec:\n      restartPolicy: Never\n      containers:\n      - name: main\n        image: \"job:%s\"\n", content)
	case "Pod":
		return "apiVersion: v1\nkind: Pod\n" + md + fmt.Sprintf("spec:\n  restartPolicy: Never\n  containers:\n  - name: main\n    image: \"pod:%s\"\n", content)
	case "PersistentVolumeClaim":
		return "apiVersion: v1\nkind: PersistentVolumeClaim\n" + md + "spec:\n  accessModes: [ReadWriteOnce]\n  resources:\n    requests:\n      storage: 1Gi\n"
	case "Role":
		return "apiVersion: rbac.authorization.k8s.io/v1\nkind: Role\n" + md + fmt.Sprintf("rules:\n- apiGroups: [\"\"]\n  resources: [configmaps]\n  verbs: [get, %s]\n", "list")
	case "NetworkPolicy":
		return "apiVersion: networking.k8s.io/v1\nkind: NetworkPolicy\n" + md + fmt.Sprintf("spec:\n  podSelector:\n    matchLabels:\n      app: %s\n  policyTypes: [Ingress]\n", content)
	case "Widget":
		return "apiVersion: example.com/v1\nkind: Widget\n" + md + fmt.Sprintf("spec:\n  size: %q\n  k: %s\n", content, valExpr)
	case "Gadget":
		return "apiVersion: example.com/v1\nkind: Gadget\n" + md + fmt.Sprintf("spec:\n  parts:\n  - %q\n  - fixed\n", content)
	}
	panic("unknown kind " + kind)
}

// HookSpec describes one hook template.
type HookSpec struct {
	Name     string
	Kind     string
	Events   []string
	Weight   string // "" = none
	Policies []string
}

func (h HookSpec) YAML(nameExpr string) string {
	ann := map[string]string{"helm.sh/hook": strings.Join(h.Events, ",")}
	if h.Weight != "" {
		ann["helm.sh/hook-weight"] = h.Weight
	}
	if len(h.Policies) > 0 {
		ann["helm.sh/hook-delete-policy"] = strings.Join(h.Policies, ",")
	}
	return ResourceYAML(h.Kind, nameExpr, "hook", `"h"`, ann)
}

// VersionSpec is one chart version of a family.
type VersionSpec struct {
	Slots   []int          // indexes into SlotPool
	Content map[int]string // slot -> content tag
	Keep    map[int]bool   // slot -> helm.sh/resource-policy: keep
	Hooks   []HookSpec
	DefK    string // default of .Values.k
}

// Family is a versioned chart family over one slot pool.
type Family struct {
	Name     string
	Versions []VersionSpec
}

// FamilyOpts steers NewFamily.
type FamilyOpts struct {
	Versions   int
	MaxSlots   int  // size of the pool prefix used
	Hooks      bool // generate hooks
	Keep       bool // generate keep toggles
	OnePerKind bool // at most one resource per kind (for schedule control)
}

func NewFamily(rng *rand.Rand, o FamilyOpts) Family {
	if o.Versions == 0 {
		o.Versions = 4
	}
	if o.MaxSlots == 0 || o.MaxSlots > len(SlotPool) {
		o.MaxSlots = len(SlotPool)
	}
	f := Family{Name: "fam"}
	perm := rng.Perm(len(SlotPool))
	pool := perm[:o.MaxSlots]
	for v := 0; v < o.Versions; v++ {
		vs := VersionSpec{Content: map[int]string{}, Keep: map[int]bool{}, DefK: fmt.Sprintf("d%d", rng.Intn(3))}
		seenKind := map[string]bool{}
		for _, s := range pool {
			if rng.Intn(100) < 55 {
				if o.OnePerKind && seenKind[SlotPool[s].Kind] {
					continue
				}
				seenKind[SlotPool[s].Kind] = true
				vs.Slots = append(vs.Slots, s)
			}
		}
		if len(vs.Slots) == 0 {
			vs.Slots = []int{pool[rng.Intn(len(pool))]}
		}
		sort.Ints(vs.Slots)
		for _, s := range vs.Slots {
			vs.Content[s] = fmt.Sprintf("c%d", rng.Intn(3))
			if o.Keep && rng.Intn(100) < 20 {
				vs.Keep[s] = true
			}
		}
		if o.Hooks {
			n := rng.Intn(4)
			events := []string{"pre-install", "post-install", "pre-upgrade", "post-upgrade", "pre-rollback", "post-rollback", "pre-delete", "post-delete"}
			policies := [][]string{nil, {"before-hook-creation"}, {"hook-succeeded"}, {"hook-failed"}, {"hook-succeeded", "hook-failed"}, {"before-hook-creation", "hook-succeeded"}}
			for i := 0; i < n; i++ {
				h := HookSpec{Name: fmt.Sprintf("hook-%d", i), Kind: []string{"ConfigMap", "Job", "Pod", "ServiceAccount"}[rng.Intn(4)]}
				ne := 1 + rng.Intn(3)
				seen := map[string]bool{}
				for j := 0; j < ne; j++ {
					e := events[rng.Intn(len(events))]
					if !seen[e] {
						seen[e] = true
						h.Events = append(h.Events, e)
					}
				}
				if rng.Intn(2) == 0 {
					h.Weight = fmt.Sprint(rng.Intn(7) - 3)
				}
				h.Policies = policies[rng.Intn(len(policies))]
				vs.Hooks = append(vs.Hooks, h)
			}
		}
		f.Versions = append(f.Versions, vs)
	}
	return f
}

// Files renders chart version v of the family.
func (f Family) Files(v int) Files {
	vs := f.Versions[v]
	out := Files{
		"Chart.yaml":  fmt.Sprintf("apiVersion: v2\nname: %s\nversion: 0.%d.0\n", f.Name, v+1),
		"values.yaml": fmt.Sprintf("k: %s\n", vs.DefK),
	}
	for _, s := range vs.Slots {
		sl := SlotPool[s]
		var ann map[string]string
		if vs.Keep[s] {
			ann = map[string]string{"helm.sh/resource-policy": "keep"}
		}
		out["templates/"+sl.Suffix+".yaml"] = ResourceYAML(sl.Kind, "{{ .Release.Name }}-"+sl.Suffix, vs.Content[s], "{{ .Values.k | quote }}", ann)
	}
	for _, h := range vs.Hooks {
		// hooks without before-hook-creation carry the revision in their name so that leftovers never collide
		nameExpr := "{{ .Release.Name }}-" + h.Name
		bhc := len(h.Policies) == 0
		for _, p := range h.Policies {
			if p == "before-hook-creation" {
				bhc = true
			}
		}
		if !bhc {
			nameExpr += "-r{{ .Release.Revision }}"
		}
		out["templates/"+h.Name+".yaml"] = h.YAML(nameExpr)
	}
	return out
}

// Pick returns a random element.
func Pick[T any](rng *rand.Rand, xs []T) T { return xs[rng.Intn(len(xs))] }
