package gen

import (
	"math/rand"

	"helm.sh/helm/v4/verifh/env"
)

// HistoryOpts steers NewHistory.
type HistoryOpts struct {
	Len        int
	Versions   int  // chart versions available
	MaxHistory bool // use history limits
	Failures   bool // some ops carry Inject (deliberately failing ops, to put failed revisions into histories)
	Atomic     bool
	Uninstall  bool
}

// NewHistory generates an operation sequence for one release name. It tracks a coarse abstract
// state only to keep most operations meaningful; some deliberately are not (they must fail cleanly).
func NewHistory(rng *rand.Rand, o HistoryOpts) []env.Op {
	var ops []env.Op
	installed, keptHistory := false, false
	revs := 0
	limit := 0
	if o.MaxHistory {
		limit = []int{0, 1, 2, 3, 2}[rng.Intn(5)]
	}
	vals := func() map[string]any {
		switch rng.Intn(4) {
		case 0:
			return nil
		default:
			return map[string]any{"k": []string{"ua", "ub", "uc"}[rng.Intn(3)]}
		}
	}
	for len(ops) < o.Len {
		var op env.Op
		switch {
		case !installed:
			op = env.Op{Kind: "install", Chart: rng.Intn(o.Versions), Vals: vals(), Replace: keptHistory || rng.Intn(10) == 0}
			if o.Atomic && rng.Intn(5) == 0 {
				op.Atomic = true
			}
			installed, keptHistory = true, false
			revs++
		default:
			x := rng.Intn(100)
			switch {
			case x < 60:
				op = env.Op{Kind: "upgrade", Chart: rng.Intn(o.Versions), Vals: vals(), MaxHistory: limit}
				if o.Atomic && rng.Intn(5) == 0 {
					op.Atomic = true
				}
				op.CleanupOnFail = rng.Intn(5) == 0
				revs++
			case x < 80 && revs >= 2:
				op = env.Op{Kind: "rollback", MaxHistory: limit}
				if rng.Intn(2) == 0 {
					op.ToRev = 1 + rng.Intn(revs)
				}
				op.CleanupOnFail = rng.Intn(5) == 0
				revs++
			case x < 92 && o.Uninstall:
				op = env.Op{Kind: "uninstall", KeepHistory: rng.Intn(2) == 0}
				installed = false
				keptHistory = op.KeepHistory
				if !op.KeepHistory {
					revs = 0
				}
			case x < 96:
				// install over an existing name: refused unless --replace and the last revision is failed/uninstalled
				op = env.Op{Kind: "install", Chart: rng.Intn(o.Versions), Vals: vals(), Replace: rng.Intn(3) > 0}
				revs++
			default:
				op = env.Op{Kind: "upgrade", Chart: rng.Intn(o.Versions), Vals: vals(), MaxHistory: limit}
				revs++
			}
		}
		op.NoHooks = rng.Intn(4) == 0
		if o.Failures && op.Kind != "uninstall" && rng.Intn(100) < 18 {
			op.Inject = []string{"wait", "mut"}[rng.Intn(2)]
		}
		ops = append(ops, op)
	}
	return ops
}
