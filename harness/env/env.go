// Package env wires the real helm action layer to the simulated cluster: REST client getter,
// kube.Client with a scripted waiter, release storage on the three drivers, and an
// independent raw-ledger reader.
package env

import (
	"bytes"
	"compress/gzip"
	"encoding/base64"
	"encoding/json"
	"errors"
	"fmt"
	"io"
	"log"
	"log/slog"
	"sort"
	"strings"
	"sync"
	"time"

	"k8s.io/apimachinery/pkg/api/meta"
	"k8s.io/client-go/discovery"
	"k8s.io/client-go/discovery/cached/memory"
	"k8s.io/client-go/kubernetes"
	"k8s.io/client-go/rest"
	"k8s.io/client-go/restmapper"
	"k8s.io/client-go/tools/clientcmd"
	clientcmdapi "k8s.io/client-go/tools/clientcmd/api"

	"helm.sh/helm/v4/pkg/action"
	chartutil "helm.sh/helm/v4/pkg/chart/v2/util"
	"helm.sh/helm/v4/pkg/kube"
	release "helm.sh/helm/v4/pkg/release/v1"
	"helm.sh/helm/v4/pkg/storage"
	"helm.sh/helm/v4/pkg/storage/driver"
	"helm.sh/helm/v4/verifh/sim"
)

// Quiet silences helm's and client-go's logging (workers call it once).
func Quiet() {
	log.SetOutput(io.Discard)
	slog.SetDefault(slog.New(slog.NewTextHandler(io.Discard, nil)))
}

type getter struct {
	cfg *rest.Config
	ns  string
	dc  discovery.CachedDiscoveryInterface
	rm  meta.RESTMapper
}

func (g *getter) ToRESTConfig() (*rest.Config, error)                        { return rest.CopyConfig(g.cfg), nil }
func (g *getter) ToDiscoveryClient() (discovery.CachedDiscoveryInterface, error) { return g.dc, nil }
func (g *getter) ToRESTMapper() (meta.RESTMapper, error)                     { return g.rm, nil }
func (g *getter) ToRawKubeConfigLoader() clientcmd.ClientConfig {
	return clientcmd.NewDefaultClientConfig(clientcmdapi.Config{}, &clientcmd.ConfigOverrides{Context: clientcmdapi.Context{Namespace: g.ns}})
}

// Script drives the scripted waiter (readiness is environment behaviour).
type Script struct {
	mu sync.Mutex
	// FailWaitNth: the n-th Wait/WaitWithJobs call (1-based, counted since Reset) of agent FailAgent fails.
	FailWaitNth int
	// FailHooks: WatchUntilReady fails when the resource list contains one of these names.
	FailHooks map[string]bool
	// FailWatchNth: the n-th WatchUntilReady call fails.
	FailWatchNth int
	// FailAgent restricts the failures to one agent ("" = any).
	FailAgent string
	waits     int
	watches   int
}

func (s *Script) Reset() {
	s.mu.Lock()
	defer s.mu.Unlock()
	s.FailWaitNth, s.FailHooks, s.FailWatchNth, s.FailAgent, s.waits, s.watches = 0, nil, 0, "", 0, 0
}

// Counts returns the number of wait and watch calls seen since Reset.
func (s *Script) Counts() (waits, watches int) {
	s.mu.Lock()
	defer s.mu.Unlock()
	return s.waits, s.watches
}

// World is one simulated cluster + release storage.
type World struct {
	Sim        *sim.Server
	NS         string
	DriverKind string // memory | secrets | configmaps
	Mem        *driver.Memory
	Script     *Script

	dmu sync.Mutex
	dc  discovery.CachedDiscoveryInterface
	rm  meta.RESTMapper
}

func NewWorld(driverKind, ns string) *World {
	w := &World{Sim: sim.New(), NS: ns, DriverKind: driverKind, Script: &Script{}}
	if driverKind == "memory" {
		w.Mem = driver.NewMemory()
		w.Mem.SetNamespace(ns)
	}
	return w
}

func (w *World) restConfig(agent string) *rest.Config {
	cfg := &rest.Config{Host: "http://sim.invalid", Transport: w.Sim, QPS: -1, UserAgent: agent}
	cfg.ContentType = "application/json"
	return cfg
}

func (w *World) getter(agent string) *getter {
	cfg := w.restConfig(agent)
	w.dmu.Lock()
	defer w.dmu.Unlock()
	if w.dc == nil {
		d, err := discovery.NewDiscoveryClientForConfig(w.restConfig("discovery"))
		if err != nil {
			panic(err)
		}
		w.dc = memory.NewMemCacheClient(d)
		w.rm = restmapper.NewDeferredDiscoveryRESTMapper(w.dc)
	}
	return &getter{cfg: cfg, ns: w.NS, dc: w.dc, rm: w.rm}
}

// MonClient is the real kube.Client with only GetWaiter replaced by the scripted waiter.
type MonClient struct {
	*kube.Client
	w     *World
	agent string
}

// GetWaiter accepts exactly the strategies the real kube.Client accepts (anything else is
// "unknown wait strategy", as in kube.Client.GetWaiter) and returns the scripted waiter.
func (c *MonClient) GetWaiter(ws kube.WaitStrategy) (kube.Waiter, error) {
	switch ws {
	case kube.LegacyStrategy, kube.StatusWatcherStrategy, kube.HookOnlyStrategy:
		return &scriptWaiter{c.w, c.agent}, nil
	}
	return nil, errors.New("unknown wait strategy")
}

type scriptWaiter struct {
	w     *World
	agent string
}

func names(rl kube.ResourceList) []string {
	var n []string
	for _, r := range rl {
		n = append(n, r.Mapping.GroupVersionKind.Kind+"/"+r.Name)
	}
	return n
}

func (sw *scriptWaiter) wait(what string, rl kube.ResourceList) error {
	sw.w.Sim.NoteEvent(sim.Event{Agent: sw.agent, What: what, Note: "call", Names: names(rl)})
	s := sw.w.Script
	s.mu.Lock()
	var err error
	if s.FailAgent == "" || s.FailAgent == sw.agent {
		s.waits++
		if s.FailWaitNth != 0 && s.waits == s.FailWaitNth {
			err = errors.New("scripted: resources never became ready")
		}
	}
	s.mu.Unlock()
	e := sim.Event{Agent: sw.agent, What: what, Note: "ret", Names: names(rl)}
	if err != nil {
		e.Err = err.Error()
	}
	sw.w.Sim.NoteEvent(e)
	return err
}

func (sw *scriptWaiter) Wait(rl kube.ResourceList, _ time.Duration) error { return sw.wait("Wait", rl) }
func (sw *scriptWaiter) WaitWithJobs(rl kube.ResourceList, _ time.Duration) error {
	return sw.wait("WaitWithJobs", rl)
}
func (sw *scriptWaiter) WaitForDelete(rl kube.ResourceList, _ time.Duration) error {
	sw.w.Sim.NoteEvent(sim.Event{Agent: sw.agent, What: "WaitForDelete", Note: "call", Names: names(rl)})
	sw.w.Sim.NoteEvent(sim.Event{Agent: sw.agent, What: "WaitForDelete", Note: "ret", Names: names(rl)})
	return nil
}
func (sw *scriptWaiter) WatchUntilReady(rl kube.ResourceList, _ time.Duration) error {
	sw.w.Sim.NoteEvent(sim.Event{Agent: sw.agent, What: "WatchUntilReady", Note: "call", Names: names(rl)})
	s := sw.w.Script
	s.mu.Lock()
	var err error
	if s.FailAgent == "" || s.FailAgent == sw.agent {
		s.watches++
		if s.FailWatchNth != 0 && s.watches == s.FailWatchNth {
			err = errors.New("scripted: hook failed")
		}
		for _, r := range rl {
			if s.FailHooks[r.Name] {
				err = fmt.Errorf("scripted: hook %s failed", r.Name)
			}
		}
	}
	s.mu.Unlock()
	e := sim.Event{Agent: sw.agent, What: "WatchUntilReady", Note: "ret", Names: names(rl)}
	if err != nil {
		e.Err = err.Error()
	}
	sw.w.Sim.NoteEvent(e)
	return err
}

// Driver returns the storage driver of this world bound to an agent tag.
func (w *World) Driver(agent string) driver.Driver {
	switch w.DriverKind {
	case "memory":
		return &RecDriver{W: w, Agent: agent, Inner: w.Mem}
	case "secrets":
		cs, err := kubernetes.NewForConfig(w.restConfig(agent))
		if err != nil {
			panic(err)
		}
		return driver.NewSecrets(cs.CoreV1().Secrets(w.NS))
	case "configmaps":
		cs, err := kubernetes.NewForConfig(w.restConfig(agent))
		if err != nil {
			panic(err)
		}
		return driver.NewConfigMaps(cs.CoreV1().ConfigMaps(w.NS))
	}
	panic("unknown driver " + w.DriverKind)
}

// Config builds a fresh action.Configuration (as a new helm process would) whose cluster and
// storage calls are tagged with agent.
func (w *World) Config(agent string) *action.Configuration {
	g := w.getter(agent)
	kc := kube.New(g)
	kc.Namespace = w.NS
	return &action.Configuration{
		RESTClientGetter: g,
		KubeClient:       &MonClient{Client: kc, w: w, agent: agent},
		Releases:         storage.Init(w.Driver(agent)),
		Capabilities:     chartutil.DefaultCapabilities.Copy(),
	}
}

// RecDriver wraps the memory driver so that its calls are numbered, logged, faulted, cut and
// gated like the HTTP-backed drivers.
type RecDriver struct {
	W     *World
	Agent string
	Inner *driver.Memory
}

var memRes = &sim.Res{Group: "mem", Version: "v1", Kind: "MemRecord", Plural: "memrecords", Namespaced: true}

func (d *RecDriver) Name() string { return d.Inner.Name() }

func codeOf(err error) int {
	switch {
	case err == nil:
		return 200
	case errors.Is(err, driver.ErrReleaseExists):
		return 409
	case errors.Is(err, driver.ErrReleaseNotFound):
		return 404
	}
	return 500
}

var ErrInjectedStorage = errors.New("injected storage fault")

func (d *RecDriver) call(method, key string, f func() error) error {
	var err error
	r := &sim.Req{Agent: d.Agent, Method: method, Path: "mem:" + key, Res: memRes, NS: d.W.NS, Name: key, Class: "storage"}
	injected, xerr := d.W.Sim.External(r, func() int {
		err = f()
		c := codeOf(err)
		if method == "POST" && c == 200 {
			c = 201
		}
		return c
	})
	if xerr != nil {
		return xerr
	}
	if injected {
		return ErrInjectedStorage
	}
	return err
}

func (d *RecDriver) Create(key string, rls *release.Release) error {
	return d.call("POST", key, func() error { return d.Inner.Create(key, rls) })
}
func (d *RecDriver) Update(key string, rls *release.Release) error {
	return d.call("PUT", key, func() error { return d.Inner.Update(key, rls) })
}
func (d *RecDriver) Delete(key string) (rel *release.Release, err error) {
	err = d.call("DELETE", key, func() error { var e error; rel, e = d.Inner.Delete(key); return e })
	return
}
func (d *RecDriver) Get(key string) (rel *release.Release, err error) {
	err = d.call("GET", key, func() error { var e error; rel, e = d.Inner.Get(key); return e })
	return
}
func (d *RecDriver) List(filter func(*release.Release) bool) (rels []*release.Release, err error) {
	err = d.call("GET", "", func() error { var e error; rels, e = d.Inner.List(filter); return e })
	return
}
func (d *RecDriver) Query(labels map[string]string) (rels []*release.Release, err error) {
	err = d.call("GET", "", func() error { var e error; rels, e = d.Inner.Query(labels); return e })
	return
}

// ---------------------------------------------------------------- raw ledger

// Rec is one raw ledger record decoded independently of helm's storage code.
type Rec struct {
	Name      string
	Namespace string
	Revision  int
	Status    string
	Desc      string
	Manifest  string
	Config    string // canonical JSON
	Chart     string // chart name-version
	ChartJSON string // canonical JSON of the chart payload (metadata, templates, values...)
	Hooks     string // canonical JSON
	Labels    map[string]string
	ObjKey    string // store key or memory key
}

type rawRelease struct {
	Name string `json:"name"`
	Info struct {
		Status      string `json:"status"`
		Description string `json:"description"`
	} `json:"info"`
	Chart     json.RawMessage `json:"chart"`
	Config    json.RawMessage `json:"config"`
	Manifest  string          `json:"manifest"`
	Hooks     json.RawMessage `json:"hooks"`
	Version   int             `json:"version"`
	Namespace string          `json:"namespace"`
}

func canon(raw json.RawMessage) string {
	if len(raw) == 0 {
		return "null"
	}
	var v any
	if err := json.Unmarshal(raw, &v); err != nil {
		return string(raw)
	}
	b, _ := json.Marshal(v)
	return string(b)
}

// DecodeRecord decodes helm's storage encoding: base64(gzip(json)) or base64(json).
func DecodeRecord(s string) (*rawRelease, error) {
	b, err := base64.StdEncoding.DecodeString(s)
	if err != nil {
		return nil, err
	}
	if len(b) > 3 && b[0] == 0x1f && b[1] == 0x8b && b[2] == 0x08 {
		zr, err := gzip.NewReader(bytes.NewReader(b))
		if err != nil {
			return nil, err
		}
		b, err = io.ReadAll(zr)
		if err != nil {
			return nil, err
		}
	}
	var r rawRelease
	if err := json.Unmarshal(b, &r); err != nil {
		return nil, err
	}
	return &r, nil
}

func recFromRaw(r *rawRelease) Rec {
	rec := Rec{Name: r.Name, Namespace: r.Namespace, Revision: r.Version, Status: r.Info.Status, Desc: r.Info.Description,
		Manifest: r.Manifest, Config: canon(r.Config), Hooks: canon(r.Hooks), ChartJSON: canon(r.Chart)}
	var ch struct {
		Metadata struct {
			Name    string `json:"name"`
			Version string `json:"version"`
		} `json:"metadata"`
	}
	json.Unmarshal(r.Chart, &ch)
	rec.Chart = ch.Metadata.Name + "-" + ch.Metadata.Version
	return rec
}

// Ledger reads the raw records of one release name, sorted by revision, bypassing helm's
// storage layer for the Kubernetes-backed drivers. Unreadable records are returned in bad.
func (w *World) Ledger(name string) (recs []Rec, bad []string) {
	switch w.DriverKind {
	case "memory":
		rels, _ := w.Mem.List(func(*release.Release) bool { return true })
		for _, r := range rels {
			if r.Name != name {
				continue
			}
			b, _ := json.Marshal(r)
			var raw rawRelease
			json.Unmarshal(b, &raw)
			rec := recFromRaw(&raw)
			rec.Labels = r.Labels
			rec.ObjKey = fmt.Sprintf("mem:%s.v%d", r.Name, r.Version)
			recs = append(recs, rec)
		}
	default:
		plural := "secrets"
		if w.DriverKind == "configmaps" {
			plural = "configmaps"
		}
		prefix := sim.Key("", plural, w.NS, "sh.helm.release.v1."+name+".v")
		for _, k := range w.Sim.Keys() {
			if !strings.HasPrefix(k, prefix) {
				continue
			}
			o := w.Sim.Get(k)
			data, _ := o["data"].(map[string]any)
			enc, _ := data["release"].(string)
			if plural == "secrets" {
				b, err := base64.StdEncoding.DecodeString(enc)
				if err != nil {
					bad = append(bad, k)
					continue
				}
				enc = string(b)
			}
			raw, err := DecodeRecord(enc)
			if err != nil {
				bad = append(bad, k)
				continue
			}
			if raw.Name != name {
				continue
			}
			rec := recFromRaw(raw)
			rec.ObjKey = k
			rec.Labels = map[string]string{}
			if md, ok := o["metadata"].(map[string]any); ok {
				if l, ok := md["labels"].(map[string]any); ok {
					for lk, lv := range l {
						rec.Labels[lk] = fmt.Sprint(lv)
					}
				}
			}
			recs = append(recs, rec)
		}
	}
	sort.SliceStable(recs, func(i, j int) bool { return recs[i].Revision < recs[j].Revision })
	return
}

// LedgerString is a compact rendering "1:superseded 2:deployed".
func LedgerString(recs []Rec) string {
	var p []string
	for _, r := range recs {
		p = append(p, fmt.Sprintf("%d:%s", r.Revision, r.Status))
	}
	return strings.Join(p, " ")
}
