package env

import (
	"fmt"

	"helm.sh/helm/v4/pkg/action"
	chart "helm.sh/helm/v4/pkg/chart/v2"
	"helm.sh/helm/v4/pkg/kube"
	release "helm.sh/helm/v4/pkg/release/v1"
	"helm.sh/helm/v4/verifh/sim"
)

// Op is one helm operation of a generated history (JSON-serialisable for replay files).
type Op struct {
	Kind  string         `json:"kind"` // install | upgrade | rollback | uninstall
	Chart int            `json:"chart,omitempty"`
	Vals  map[string]any `json:"vals,omitempty"`
	ToRev int            `json:"toRev,omitempty"` // rollback target, 0 = previous

	Atomic         bool `json:"atomic,omitempty"`
	CleanupOnFail  bool `json:"cleanup,omitempty"`
	KeepHistory    bool `json:"keepHistory,omitempty"`
	Replace        bool `json:"replace,omitempty"`
	NoHooks        bool `json:"noHooks,omitempty"`
	MaxHistory     int  `json:"maxHistory,omitempty"`
	ReuseValues    bool `json:"reuse,omitempty"`
	ResetValues    bool `json:"reset,omitempty"`
	ResetThenReuse bool `json:"resetThenReuse,omitempty"`
	TakeOwnership  bool `json:"takeOwnership,omitempty"`
	Force          bool `json:"force,omitempty"`
	WaitForJobs    bool `json:"waitForJobs,omitempty"`
	SkipSchema     bool `json:"skipSchema,omitempty"`
	SubNotes       bool `json:"subNotes,omitempty"`
	SkipCRDs       bool `json:"skipCRDs,omitempty"`
	CreateNS       bool `json:"createNS,omitempty"`
	// Inject makes the op fail on purpose when a history is built: "wait" = the readiness wait
	// fails, "mut" = the first cluster mutation of the op is rejected. Interpreted by ExecInject.
	Inject string `json:"inject,omitempty"`
	// DryRun: "" (real) | "flag" (DryRun=true) | client | server | true | none | false
	DryRun string `json:"dryRun,omitempty"`
}

func (o Op) String() string {
	s := o.Kind
	if o.Kind == "install" || o.Kind == "upgrade" {
		s += fmt.Sprintf("(c%d)", o.Chart)
	}
	if o.Kind == "rollback" {
		s += fmt.Sprintf("(->%d)", o.ToRev)
	}
	for _, f := range []struct {
		on bool
		n  string
	}{{o.Atomic, "atomic"}, {o.CleanupOnFail, "cleanup"}, {o.KeepHistory, "keep"}, {o.Replace, "replace"}, {o.NoHooks, "nohooks"},
		{o.ReuseValues, "reuse"}, {o.ResetValues, "reset"}, {o.ResetThenReuse, "rtr"}, {o.TakeOwnership, "own"}, {o.Force, "force"}} {
		if f.on {
			s += "+" + f.n
		}
	}
	if o.MaxHistory > 0 {
		s += fmt.Sprintf("+max%d", o.MaxHistory)
	}
	if o.DryRun != "" {
		s += "+dry=" + o.DryRun
	}
	if o.Inject != "" {
		s += "+FAIL:" + o.Inject
	}
	return s
}

// OpResult is what the caller of the action API saw.
type OpResult struct {
	Rel  *release.Release
	Resp *release.UninstallReleaseResponse
	Err  error
}

func (r OpResult) ErrString() string {
	if r.Err == nil {
		return ""
	}
	return r.Err.Error()
}

// Exec runs op against the world under the given agent tag with a fresh configuration.
// ch must be a freshly built chart object (helm mutates charts while processing them).
func (w *World) Exec(agent, name string, op Op, ch *chart.Chart) OpResult {
	return w.ExecCfg(w.Config(agent), name, op, ch)
}

// ExecInject is Exec honouring op.Inject (a deliberate environment fault while building a history).
func (w *World) ExecInject(agent, name string, op Op, ch *chart.Chart) OpResult {
	switch op.Inject {
	case "wait":
		w.Script.Reset()
		w.Script.FailWaitNth, w.Script.FailAgent = 1, agent
		defer w.Script.Reset()
	case "mut":
		f := w.Sim.AddFault(&sim.Fault{Match: func(r *sim.Req) bool { return r.Agent == agent && r.Class == "mutation" }, Nth: 1, Code: 500, Once: true})
		defer func() { f.Code = 0 }()
	}
	return w.Exec(agent, name, op, ch)
}

func copyVals(v map[string]any) map[string]any {
	if v == nil {
		return map[string]any{}
	}
	return DeepCopyMap(v)
}

func (w *World) ExecCfg(cfg *action.Configuration, name string, op Op, ch *chart.Chart) OpResult {
	dry, dryOpt := false, ""
	switch op.DryRun {
	case "":
	case "flag":
		dry = true
	default:
		dryOpt = op.DryRun
	}
	switch op.Kind {
	case "install":
		in := action.NewInstall(cfg)
		in.ReleaseName, in.Namespace = name, w.NS
		in.Atomic, in.Replace, in.DisableHooks, in.TakeOwnership, in.Force = op.Atomic, op.Replace, op.NoHooks, op.TakeOwnership, op.Force
		in.WaitForJobs, in.SkipSchemaValidation, in.SubNotes, in.SkipCRDs, in.CreateNamespace = op.WaitForJobs, op.SkipSchema, op.SubNotes, op.SkipCRDs, op.CreateNS
		in.DryRun, in.DryRunOption = dry, dryOpt
		in.WaitStrategy = kube.StatusWatcherStrategy // the harness ops are "--wait" ops: readiness can fail
		rel, err := in.Run(ch, copyVals(op.Vals))
		return OpResult{Rel: rel, Err: err}
	case "upgrade":
		up := action.NewUpgrade(cfg)
		up.Namespace = w.NS
		up.Atomic, up.CleanupOnFail, up.DisableHooks, up.MaxHistory = op.Atomic, op.CleanupOnFail, op.NoHooks, op.MaxHistory
		up.ReuseValues, up.ResetValues, up.ResetThenReuseValues = op.ReuseValues, op.ResetValues, op.ResetThenReuse
		up.TakeOwnership, up.Force, up.WaitForJobs, up.SkipSchemaValidation, up.SubNotes = op.TakeOwnership, op.Force, op.WaitForJobs, op.SkipSchema, op.SubNotes
		up.DryRun, up.DryRunOption = dry, dryOpt
		up.WaitStrategy = kube.StatusWatcherStrategy
		rel, err := up.Run(name, ch, copyVals(op.Vals))
		return OpResult{Rel: rel, Err: err}
	case "rollback":
		rb := action.NewRollback(cfg)
		rb.Version, rb.DisableHooks, rb.CleanupOnFail, rb.MaxHistory, rb.Force, rb.WaitForJobs = op.ToRev, op.NoHooks, op.CleanupOnFail, op.MaxHistory, op.Force, op.WaitForJobs
		rb.DryRun = op.DryRun != ""
		rb.WaitStrategy = kube.StatusWatcherStrategy
		err := rb.Run(name)
		return OpResult{Err: err}
	case "uninstall":
		un := action.NewUninstall(cfg)
		un.KeepHistory, un.DisableHooks = op.KeepHistory, op.NoHooks
		un.DryRun = op.DryRun != ""
		un.WaitStrategy = kube.StatusWatcherStrategy
		resp, err := un.Run(name)
		return OpResult{Resp: resp, Err: err}
	}
	panic("unknown op kind " + op.Kind)
}

// DeepCopyMap copies nested map/slice structures.
func DeepCopyMap(m map[string]any) map[string]any {
	out := make(map[string]any, len(m))
	for k, v := range m {
		out[k] = deepCopyAny(v)
	}
	return out
}

func deepCopyAny(v any) any {
	switch t := v.(type) {
	case map[string]any:
		return DeepCopyMap(t)
	case []any:
		o := make([]any, len(t))
		for i := range t {
			o[i] = deepCopyAny(t[i])
		}
		return o
	}
	return v
}
